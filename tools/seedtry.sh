#!/bin/bash
# usage: seedtry.sh <govc-binary> <patch> <prop...>  -- applies a patch to a scratch copy of /repo's working tree (incl. uncommitted
# contract edits) and runs the given checks there with the given binary; the copy is removed afterwards.
bin=$1; patch=$2; shift 2
d=$(mktemp -d /tmp/govc-try-XXXX)
rsync -a --exclude .git /repo/ $d/repo/
patch -p1 -s -d $d/repo -i "$patch" || { echo PATCH-DOES-NOT-APPLY; rm -rf $d; exit 2; }
for p in "$@"; do
  $bin -repo $d/repo -prop $p -out $d/ev.json -replays $d/replays -known /verif/KNOWN_FINDINGS.txt 2>&1 | grep -E "VIOLATION|property=|ENGINE" | cut -c1-260
done
rm -rf $d
