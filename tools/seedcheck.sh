#!/bin/bash
# usage: seedcheck.sh <patch.diff> <prop>...   -- apply to /repo, run the checks, revert
p=$1; shift
if [ -n "$(git -C /repo status --porcelain)" ]; then echo "REFUSING: /repo has uncommitted changes (commit contract edits first)"; exit 2; fi
git -C /repo apply $p || { echo "PATCH DOES NOT APPLY to /repo"; exit 2; }
for prop in "$@"; do (cd /verif && bin/govc -repo /repo -prop $prop -tier quick -out /tmp/seedcheck-ev-$prop.json -known KNOWN_FINDINGS.txt -replays /tmp/seedcheck-replays 2>&1 | tail -6); done
git -C /repo apply -R $p || echo "REVERT FAILED"
git -C /repo status --short | head -3
