#!/usr/bin/env python3
"""Must-fail corpus: applies every seeded change (seeded/<id>/patch.diff) to a scratch copy of
/repo's working tree and runs the checks named in its meta.json against that copy.
usage: seedsweep.py [--prop Cxx] [--write] [--require]
  --write    updates seeded/RESULTS.md and meta 'detected_by'
  --require  (used by `./check <id> thorough`) exit 2 with an ENGINE-ERROR line when a seeded change that
             meta.json records as detected by the check is no longer detected (the check lost strength)
exit 0 otherwise; prints one line per seed.  Scratch copies live under $TMPDIR and are removed."""
import json, os, subprocess, sys, tempfile, shutil, glob
V = os.path.dirname(os.path.dirname(os.path.abspath(__file__)))
prop = None
write = '--write' in sys.argv
require = '--require' in sys.argv
lost = []
errors = []
if '--prop' in sys.argv:
    prop = sys.argv[sys.argv.index('--prop') + 1]
tmp = tempfile.mkdtemp(prefix='govc-sweep-')
from concurrent.futures import ThreadPoolExecutor
import threading, queue
NW = int(os.environ.get('SEEDSWEEP_WORKERS', '4'))
pool = queue.Queue()
for w in range(NW):
    r = os.path.join(tmp, f'repo{w}')
    subprocess.check_call(['rsync', '-a', '--exclude', '.git', '/repo/', r + '/'])
    pool.put((w, r))
rows = []
lock = threading.Lock()

def one(d):
    mp = os.path.join(d, 'meta.json')
    if not os.path.exists(mp):
        return
    meta = json.load(open(mp))
    checks = meta.get('checks', [meta['property']])
    if prop and prop not in checks:
        return
    w, repo = pool.get()
    try:
        patch = os.path.join(d, 'patch.diff')
        r = subprocess.run(['patch', '-p1', '-s', '-d', repo, '-i', patch], capture_output=True, text=True)
        if r.returncode != 0:
            subprocess.run(['rsync', '-a', '--delete', '--exclude', '.git', '/repo/', repo + '/'])
            with lock:
                rows.append((meta['id'], 'PATCH-DOES-NOT-APPLY', []))
                print(meta['id'], 'PATCH-DOES-NOT-APPLY', flush=True)
            return
        detected = []
        for c in checks:
            if prop and c != prop:
                continue
            for attempt in range(3):
                pr = subprocess.run([os.environ.get('GOVC', os.path.join(V, 'bin/govc')), '-repo', repo, '-prop', c, '-tier', 'quick', '-out', os.path.join(tmp, f'ev{w}.json'),
                                     '-known', os.path.join(V, 'KNOWN_FINDINGS.txt'), '-replays', os.path.join(tmp, f'replays{w}')], capture_output=True, text=True)
                out = pr.stdout
                if pr.returncode in (0, 1) and 'property=' in out:
                    break  # a verdict; anything else (engine error, killed) is retried, never read as "missed"
            else:
                with lock:
                    print(meta['id'], 'ENGINE-ERROR running', c, (pr.stderr or out)[-300:].replace('\n', ' | '), flush=True)
                errors.append((meta['id'], c))
                continue
            vs = [l for l in out.split('\n') if l.startswith('VIOLATION')]
            if vs:
                obl = [x.split('=', 1)[1] for l in vs for x in l.split() if x.startswith('obligation=')]
                conf = any('replayed=confirmed' in l for l in vs)
                detected.append({'check': c, 'obligations': obl[:4], 'replayed_confirmed': conf})
        # restore the scratch copy from /repo itself (reversing the patch can leave rejects behind)
        subprocess.run(['rsync', '-a', '--delete', '--exclude', '.git', '/repo/', repo + '/'])
        with lock:
            if require:
                was = {x['check'] for x in meta.get('detected_by', [])}
                now = {x['check'] for x in detected}
                for c in sorted(was - now):
                    if not prop or c == prop:
                        lost.append((meta['id'], c))
            rows.append((meta['id'], 'DETECTED' if detected else 'missed', detected))
            if write:
                if prop:  # a partial sweep keeps what is recorded for the other checks
                    detected = [x for x in meta.get('detected_by', []) if x['check'] != prop] + detected
                meta['detected_by'] = detected
                json.dump(meta, open(mp, 'w'), indent=1)
            print(meta['id'], 'DETECTED' if detected else 'missed', ' '.join(x['check'] + ':' + x['obligations'][0] for x in detected), flush=True)
    finally:
        pool.put((w, repo))

try:
    with ThreadPoolExecutor(NW) as ex:
        list(ex.map(one, sorted(glob.glob(os.path.join(V, 'seeded', '*')))))
    rows.sort()
finally:
    shutil.rmtree(tmp, ignore_errors=True)
if write:
    with open(os.path.join(V, 'seeded', 'RESULTS.md'), 'w') as f:
        f.write('# Seeded changes and the checks that catch them\n\n(regenerate with `tools/seedsweep.py --write`)\n\n| seed | property | result | failing obligation(s) | replay |\n|---|---|---|---|---|\n')
        for sid, res, det in rows:
            ob = '; '.join(x['check'] + ': ' + ', '.join(x['obligations'][:2]) for x in det)
            rp = 'confirmed' if any(x['replayed_confirmed'] for x in det) else ('no-failing-input-found' if det else '')
            f.write(f'| {sid} | {sid.split("-")[0]} | {res} | {ob} | {rp} |\n')
n = sum(1 for r in rows if r[1] == 'DETECTED')
print(f'{n}/{len(rows)} seeded changes detected')
if '--evidence' in sys.argv:
    ep = sys.argv[sys.argv.index('--evidence') + 1]
    try:
        ev = json.load(open(ep))
        ev['coverage']['must_fail_corpus'] = {sid: (res + (' by ' + ', '.join(x['check'] + ':' + x['obligations'][0] for x in det) if det else '')) for sid, res, det in rows}
        json.dump(ev, open(ep, 'w'), indent=1)
    except Exception as e:
        print('WARNING: could not update evidence:', e)
for sid, c in lost:
    print(f'ENGINE-ERROR: seeded change {sid} is recorded as detected by check {c} but is no longer detected')
for sid, c in errors:
    print(f'ENGINE-ERROR: check {c} gave no verdict on seeded change {sid}')
if lost or errors:
    sys.exit(2)
