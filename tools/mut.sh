#!/bin/bash
# usage: mut.sh <prop> <sed-expr> <file-in-repo>   -- apply a one-off sed mutation, run govc, revert
prop=$1; expr=$2; file=$3
cp /repo/$file /tmp/mut.orig.$$
sed -i "$expr" /repo/$file
if cmp -s /repo/$file /tmp/mut.orig.$$; then echo "MUTATION DID NOT APPLY"; fi
(cd /repo && git diff --stat -- $file | tail -1)
${GOVC:-/verif/bin/govc} -out /tmp/mut.ev.json -replays /tmp/mut.replays -known /verif/KNOWN_FINDINGS.txt -prop $prop 2>&1 | grep -v "^==" | tail -8
cp /tmp/mut.orig.$$ /repo/$file; rm -f /tmp/mut.orig.$$
