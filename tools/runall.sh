#!/bin/bash
# runs every registered check on the current tree (quick tier) and rewrites the evidence files
cd "$(dirname "$0")/.."
if [ -n "$(git -C /repo status --porcelain)" ]; then echo "WARNING: /repo has uncommitted changes"; fi
rc=0
for id in $(python3 -c "import json;print(' '.join(c['property_id'] for c in json.load(open('MANIFEST.json'))['checks']))"); do
  ./check $id ${1:-quick} | tail -1 || rc=1
done
exit $rc
