#!/usr/bin/env python3
"""Regenerates the machine-written tables of DESIGN.md (between the AUTO markers) from
MANIFEST.json, evidence/*.json and seeded/*/meta.json.  Run after tools/runall.sh and
tools/seedsweep.py --write."""
import json, os, glob, re
V = os.path.dirname(os.path.dirname(os.path.abspath(__file__)))
man = json.load(open(os.path.join(V, 'MANIFEST.json')))
props = {json.loads(l)['id']: json.loads(l) for l in open(os.path.join(V, 'properties.jsonl'))}

# which seeds were caught the first time the check met them ("blind") and which only after the
# check was strengthened in response to the miss (kept by hand: see DESIGN.md section 12)
AFTER = {'C15-10', 'C16-11', 'C08-14', 'C07-11', 'C12-13', 'C02-11', 'C11-12', 'C13-10', 'C15-8', 'C08-12', 'C18-10', 'C09-10', 'C20-10', 'C16-10', 'C05-8', 'C01-11', 'C02-9', 'C12-10', 'C03-10', 'C11-9', 'C11-10', 'C13-8', 'C17-7', 'C17-9', 'C01-8', 'C03-8', 'C04-8', 'C11-8', 'C12-8', 'C13-6', 'C14-8', 'C17-8', 'C19-8', 'C08-6', 'C20-6', 'C07-6', 'C18-5', 'C18-6', 'C17-6', 'C06-6', 'C02-6', 'C13-4', 'C15-3', 'C12-5', 'C11-6', 'C03-5', 'C09-3', 'C05-3', 'C11-4', 'C05-1', 'C05-2', 'C18-4', 'C17-4', 'C10-4', 'C01-4', 'C20-3', 'C19-4', 'C01-1', 'C07-4', 'C03-4', 'C08-4', 'C03-1', 'C03-2', 'C04-2', 'C10-2', 'C17-2', 'C19-1', 'C13-1', 'C13-2', 'C15-2'}

def seeds_for(pid):
    out = []
    for d in sorted(glob.glob(os.path.join(V, 'seeded', pid + '-*'))):
        m = json.load(open(os.path.join(d, 'meta.json')))
        det = m.get('detected_by', [])
        out.append((m['id'], det))
    return out

rows11 = ['| id | functions / obligations (quick, current tree) | seeds caught | claim and limits |', '|---|---|---|---|']
for c in man['checks']:
    pid = c['property_id']
    ev = {}
    try:
        ev = json.load(open(os.path.join(V, 'evidence', pid + '.json')))
    except Exception:
        pass
    cov = ev.get('coverage', {})
    sd = seeds_for(pid)
    caught = sum(1 for _, d in sd if d)
    text = c['level_claimed']['text']
    note = c['level_note'].split(' Trusted: ')[0]
    rows11.append(f"| {pid} | {len(cov.get('functions_under_contract', []))} / {cov.get('obligations', '?')} (all discharged) | {caught}/{len(sd)} | **Claim.** {text} **Limits.** {note} |")

rows12 = ['| seed | what was changed | caught by (first failing obligation) | replay | when |', '|---|---|---|---|---|']
n = tot = 0
for d in sorted(glob.glob(os.path.join(V, 'seeded', 'C*-*'))):
    m = json.load(open(os.path.join(d, 'meta.json')))
    det = m.get('detected_by', [])
    tot += 1
    if det:
        n += 1
        by = '; '.join(x['check'] + ': `' + x['obligations'][0] + '`' for x in det)
        rp = 'confirmed' if any(x['replayed_confirmed'] for x in det) else 'no-failing-input-found'
        when = 'after strengthening' if m['id'] in AFTER else 'first run'
    else:
        by, rp, when = '**missed**', '', ''
    rows12.append(f"| {m['id']} | {m['change']} | {by} | {rp} | {when} |")
rows12.append('')
rows12.append(f'{n} of {tot} seeded changes are caught on the current tree.')
metas = [json.load(open(os.path.join(d, 'meta.json'))) for d in sorted(glob.glob(os.path.join(V, 'seeded', 'C*-*')))]
def rnd(m):
    pb = m.get('produced_by', '')
    if 'canary' in pb:
        return 0
    if 'round 4' in pb:
        return 4
    if 'round 5' in pb:
        return 5
    if 'round 6' in pb:
        return 6
    if 'round 7' in pb:
        return 7
    if 'round 8' in pb:
        return 8
    return (int(m['id'].split('-')[1]) + 1) // 2
for r in (1, 2, 3, 4, 5, 6, 7, 8):
    ms = [m for m in metas if rnd(m) == r]
    ids = [m['id'] for m in ms]
    missed = [m['id'] for m in ms if not m.get('detected_by')]
    first = [i for i in ids if i not in AFTER and i not in missed]
    after = sorted(set(ids) - set(first) - set(missed))
    rows12.append(f'Round {r}: {len(ids)} seeds, {len(first)} caught by the checks as they stood when the seed arrived, {len(after)} only after a contract was added or sharpened in response ({", ".join(after)})' + (f', {len(missed)} not caught ({", ".join(missed)}: see the notes below the table)' if missed else '') + '.')
can = [m['id'] for m in metas if rnd(m) == 0]
rows12.append(f'Canaries (reverts of repaired defects, written by the author of the checks, not counted in the rounds): {", ".join(can)}.')

p = os.path.join(V, 'DESIGN.md')
s = open(p).read()
def put(tag, rows):
    global s
    a, b = f'<!-- BEGIN AUTO-{tag} -->', f'<!-- END AUTO-{tag} -->'
    i, j = s.index(a), s.index(b)
    s = s[:i + len(a)] + '\n' + '\n'.join(rows) + '\n' + s[j:]
put('11', rows11)
put('12', rows12)
open(p, 'w').write(s)
print('DESIGN.md tables regenerated:', len(rows11) - 2, 'checks,', tot, 'seeds')
