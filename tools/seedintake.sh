#!/bin/bash
# usage: seedintake.sh <new-seed-id e.g. C07-3> <source dir with patch.diff demo_test.go notes.md> <demo pkg dir> <run regex> [checks...]
# Copies a seed produced by a sub-agent into /verif/seeded/<id>/, confirms it in a scratch worktree
# (RACE=1 in the environment runs the demonstration under -race) and runs the listed checks
# (default: the seed's own property) against a scratch copy with the change applied.
set -u
id=$1; src=$2; pkg=$3; run=$4; shift 4
prop=${id%%-*}
checks=${*:-$prop}
V=$(cd "$(dirname "$0")/.." && pwd)
d=$V/seeded/$id
mkdir -p $d
cp $src/patch.diff $d/patch.diff
cp $src/notes.md $d/notes.md 2>/dev/null
demo=$(ls $src/demo*_test.go $src/*_test.go 2>/dev/null | head -1)
cp $demo $d/demo_test.go
echo "=== confirm $id"
res=$($V/tools/seedconfirm.sh $d $pkg "$run" 2>&1 | tail -12)
echo "$res" | tail -8
echo "=== checks: $checks"
$V/tools/seedtry.sh $V/bin/govc $d/patch.diff $checks
echo "$res" | grep -q "RESULT demo-without-exit=0 demo-with-exit=1" && echo "CONFIRMED $id" || echo "NOT-CONFIRMED $id"
