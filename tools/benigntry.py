#!/usr/bin/env python3
"""Must-pass corpus (false-alarm probe): behaviour-preserving maintainer edits, written by sub-agents
that were given only a property text and a scratch copy of the repository (benign/PROMPT.tmpl), are
applied one at a time to a scratch copy of /repo's working tree; every check whose functions under
contract live in a package the patch touches is run on it.  A VIOLATION on such a patch is a false
alarm of the machinery, never a finding about the code.

usage: benigntry.py [--prop Cxx] [--require] [--evidence f] [dir-with-k/patch.diff ...]
  no dirs      the committed corpus /verif/benign/*/patch.diff
  --prop       only run check Cxx (on the patches relevant to it)
  --require    exit 2 with an ENGINE-ERROR line for every alarm (used by `./check <id> thorough`)
Scratch copies live under $TMPDIR and are removed.  GOVC=<binary> selects the engine build.
"""
import sys, os, re, json, glob, subprocess, tempfile, shutil
from concurrent.futures import ThreadPoolExecutor

V = os.path.dirname(os.path.dirname(os.path.abspath(__file__)))
GOVC = os.environ.get('GOVC', os.path.join(V, 'bin/govc'))
args = sys.argv[1:]
prop = None
evidence = None
require = '--require' in args
if '--prop' in args:
    prop = args[args.index('--prop') + 1]
if '--evidence' in args:
    evidence = args[args.index('--evidence') + 1]
dirs = [a for i, a in enumerate(args) if not a.startswith('--') and (i == 0 or args[i - 1] not in ('--prop', '--evidence'))]


def props_by_pkg():
    """package (relative to the module) -> checks that have functions under contract there; taken
    from the contract files themselves so that it does not depend on evidence of an earlier run"""
    m = {}
    for f in glob.glob('/repo/**/contracts_verif.go', recursive=True):
        pkg = os.path.dirname(os.path.relpath(f, '/repo'))
        ids = set(re.findall(r'\bC(?:0[1-9]|1[0-9]|20)\b', open(f).read()))
        m.setdefault(pkg, set()).update(ids)
    # the lock and guarded-by sweeps look at every function of the module
    for pkg in list(m):
        m[pkg] |= {'C08', 'C09'}
    return m


def run(patch, pb):
    pkgs = set()
    for l in open(patch):
        if l.startswith('+++ '):
            p = l[4:].split('\t')[0].strip()
            p = p[2:] if p[:2] in ('a/', 'b/') else p
            pkgs.add(os.path.dirname(p))
    props = set()
    for p in pkgs:
        props |= pb.get(p, {'C08', 'C09'})
    if prop:
        props &= {prop}
    out = []
    if not props:
        return patch, out, props
    d = tempfile.mkdtemp(prefix='govc-bn-')
    try:
        subprocess.run(['rsync', '-a', '--exclude', '.git', '/repo/', d + '/repo/'], check=True)
        r = subprocess.run(['patch', '-p1', '-s', '-d', d + '/repo', '-i', patch], capture_output=True, text=True)
        if r.returncode != 0:
            return patch, ['PATCH-DOES-NOT-APPLY ' + r.stdout[:200].replace('\n', ' ')], props
        for p in sorted(props):
            for attempt in range(3):
                r = subprocess.run([GOVC, '-repo', d + '/repo', '-prop', p, '-out', d + '/ev.json', '-replays', d + '/replays',
                                    '-known', os.path.join(V, 'KNOWN_FINDINGS.txt')], capture_output=True, text=True)
                if r.returncode in (0, 1) and 'property=' in r.stdout:
                    break
            for l in (r.stdout + r.stderr).splitlines():
                if 'VIOLATION' in l or 'ENGINE' in l:
                    out.append(p + ': ' + l[:300])
            if r.returncode not in (0, 1):
                out.append('%s: exit %d' % (p, r.returncode))
    finally:
        shutil.rmtree(d, ignore_errors=True)
    return patch, out, props


def main():
    pb = props_by_pkg()
    patches = []
    for a in dirs or [os.path.join(V, 'benign')]:
        patches += sorted(glob.glob(os.path.abspath(a) + '/*/patch.diff'))
    w = int(os.environ.get('BENIGN_WORKERS', '6'))
    alarms, ran, rows = 0, 0, {}
    with ThreadPoolExecutor(w) as ex:
        for patch, out, props in ex.map(lambda p: run(p, pb), patches):
            if not props:
                continue
            ran += 1
            name = os.path.basename(os.path.dirname(patch))
            print('%s  [%s]  %s' % (name, ' '.join(sorted(props)), 'ALARM' if out else 'quiet'), flush=True)
            for l in out:
                print('    ' + l, flush=True)
            alarms += bool(out)
            rows[name] = 'ALARM: ' + '; '.join(out)[:300] if out else 'quiet'
            if out and require:
                print('ENGINE-ERROR: false alarm on the behaviour-preserving change %s' % name)
    print('benign patches=%d alarms=%d' % (ran, alarms))
    if evidence:
        try:
            ev = json.load(open(evidence))
            ev['coverage']['must_pass_corpus'] = {'patches': ran, 'alarms': alarms, 'detail': {k: v for k, v in rows.items() if v != 'quiet'}}
            json.dump(ev, open(evidence, 'w'), indent=1)
        except Exception as e:
            print('WARNING: could not update evidence:', e)
    if require and alarms:
        sys.exit(2)


main()
