#!/usr/bin/env python3
"""usage: seedmeta.py <id> <demo pkg dir> <run regex> <checks,comma> <race 0|1> <change> <needs>"""
import json, sys
i, pkg, run, checks, race, change, needs = sys.argv[1:8]
pre = 'RACE=1 ' if race == '1' else ''
m = {"id": i, "property": i.split('-')[0], "change": change, "needs_to_manifest": needs, "demo_package_dir": pkg,
     "confirmed": {"cmd": f"{pre}tools/seedconfirm.sh /verif/seeded/{i} {pkg} {run}  (scratch worktree of /repo HEAD: demo passes without the change; go build ./..., go test -run ^$ ./..., go test of the touched packages pass with it; demo fails with it)",
                   "result": "RESULT demo-without-exit=0 demo-with-exit=1"},
     "produced_by": "independent sub-agent (round 2) given only the property text and a scratch copy of the repository",
     "checks": checks.split(',')}
json.dump(m, open(f'/verif/seeded/{i}/meta.json', 'w'), indent=1)
print('meta written', i)
