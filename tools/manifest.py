#!/usr/bin/env python3
"""Regenerates /verif/MANIFEST.json from the table below."""
import json, os
V = os.path.dirname(os.path.dirname(os.path.abspath(__file__)))
props = [json.loads(l) for l in open(os.path.join(V, 'properties.jsonl'))]
baseline = json.load(open('/root/.vp/BASELINE.json'))['cmd']

TRUST = ("Trusted: go/ssa lowering, govc's VC generator, z3/cvc5, assumed contracts of external functions (listed per run in the evidence). "
         "No interference model beyond lock-protected state (DESIGN.md 5, A7); 64-bit arithmetic mathematical (A5).")

# id -> (claim text, level_note extra, design_ref)
CLAIMS = {
 'C14': ("Contract proof of the datagram reassembly kernel (internal/segment): for every byte string Receive does not panic, discards "
         "datagrams shorter than the header, changes only the buffered message keyed by the datagram's own sequence number, forgets a "
         "message exactly when it hands it up; add/build obey their counting contracts for every buffer state and segment index. "
         "Unbounded in message size, segment count and iteration count.",
         "Not decided: the QUIC/WebTransport datagram layer itself, arrival timing/expiry wall-clock.", "6/C14"),
 'C07': ("Contract proof of the unacknowledged-chunk store (inmemSentStorage Store/Remove/List/Clear and constructor): every operation is specified over the whole "
         "abstract view (stream id, sequence number) -> groups, so for all stores, all pairs of stream ids and all sequence numbers an operation on one stream leaves every other stream's "
         "entries present and unchanged; List returns a fresh copy equal to the stream's entries (map-range loop invariant); representation invariant (inner maps non-nil, pairwise distinct) re-established by every method.",
         "Not decided: end-to-end non-interference of traffic through goroutines and the wire dispatch tables (only the store is under contract so far).", "6/C07"),
 'C08': ("Lock-release lemma, zero annotation: for every function and closure of the library that performs a mutex operation (list recomputed from SSA on each run, 108 on the current tree) and for every control-flow path: "
         "no return and no loop back-edge is reached with a different lock state than on entry, no Unlock/RUnlock of an unheld mutex, no re-lock of a mutex the function already holds, Cond.Wait only with its Locker held.",
         "Not decided: that each blocking call returns within its context / close timeout / keepalive bound (timing and liveness are outside what function contracts express); callees without contract are assumed lock-balanced, which is exactly what this sweep proves for each of them. Assumed lock identities (typeassume) are listed in the evidence.", "6/C08"),
 'C11': ("Contract proof of (a) the enumeration tables of the converter layer: toResultCode/toResultCodeProto/toQoS/toQoSProto succeed exactly on the constants go/types reports for the wire and library enum types (read on every run) and fail on every other value, and are mutually inverse up to the documented wire aliasing (NORMAL_CLOSURE = SUCCEEDED = 0); "
         "(b) field-by-field round trips of the converter layer, proved as composition lemmas that symbolically execute the real WireToProto and ProtoToWire bodies one after the other, for Ping, Pong, Disconnect, UpstreamCall, UpstreamCallAck, DownstreamCall and for a DownstreamChunk in alias form (every alias value incl. 0); (c) pooled scratch buffers of the protobuf codec are reset before they return to the pool. Exhaustive over the whole value range by SMT, not by enumeration.",
         "NOT decided: round trips of the remaining message types (collections, metadata variants, durations/times, uuids), the external gogo-protobuf / jsonpb marshalling and the agreement of the two encodings (third-party, reflection), byte counts of the codecs. Assumed: generated plain field getters return the field (zero for a nil receiver).", "6/C11"),
 'C17': ("Contract proof, for all parameter values, of NegotiationParams.Validate (returns nil exactly when encoding and compression type are known, level is absent or in 0-9, window bits absent or in 0-32; defaults the level to 6 only when a type is named; otherwise leaves the parameters untouched) "
         "and NegotiationParams.CompressConfig (Enable/Level/WindowBits/DisableContextTakeover are the stated function of the parameters, independent of the base config whenever type, level and window are named).",
         "NOT decided: the three carriers (URL query, key/value map, QUIC binary form) go through encoding/json reflection and are outside the verifier's reach; DialConfig.NegotiationParams takes the address of struct fields (interior pointers escape) and is outside the supported subset, so 'as every dialer produces' is an assumption here.", "6/C17"),
 'C19': ("Contract proof of the multi-transport routing kernel: the monitor invariant of Transport.mu (selected id is a member, every member non-nil) is established by NewTransport/validateConfig (non-member InitialTransportID rejected), "
         "preserved by transportIDLoop for every id the scheduler may emit (members, non-members, the empty id), and therefore Write/AsUnreliable/NegotiationParams cannot dereference a nil member; LastUsedPoller.Get and RoundRobinPoller.Get are panic-free and RoundRobinPoller stays in bounds and returns a listed id.",
         "NOT decided: 'every message read from any member is returned exactly once' (goroutine fan-in over channels), Close-closes-every-member and the counter sums (range-over-map with external calls; not yet under contract). Precondition: no nil transport in the configured map.", "6/C19"),
 'C06': ("Contract proof of request-id generation and reply routing in wire.ClientConn: IDGenerator.Next returns the previous value and advances by 2 mod 2^32 (even ids stay even; composition lemma: two successive ids differ); "
         "sendRequest registers a fresh reply channel under exactly its request's id before writing (monitor invariant of ClientConn.mu: table[id] is a channel keyed id), readRequestLoop sends a response only on the channel registered under that response's id, "
         "deletes exactly that entry and holds no lock across iterations (channel invariant: only a message bearing the key is ever sent on a keyed channel; keyed channels are never closed), hence sendRequest returns only a response bearing its own request id, for every table state and every order of arrivals.",
         "NOT decided: that a response arrives (liveness), FIFO/buffering of channels, uniqueness of ids beyond 2^31 outstanding draws, the callers that draw an id immediately before use. Ghost keys are fixed at the make(chan) site; typeassume: the inbox channel msgRequestCh is not a keyed reply channel.", "6/C06"),
 'C03': ("Contract proof of downstream alias resolution: for every state of the two alias tables and every well-formed chunk, Downstream.wireToDownstreamChunk returns either an error or a chunk with the unchanged sequence number, exactly one group per wire group with the same data-point slice, "
         "the upstream info and every data id resolved to exactly the table entry of the alias used (or the full form unchanged); an alias missing from the table yields an error and never a chunk (loop invariants over the append-built result, per-group resolution proved element-wise). "
         "assignDataIDAlias (announcing ids seen in full form) never disturbs existing table entries and mints only aliases above the generator's previous value.",
         "NOT decided: exactly-once / in-order delivery through the forwarding goroutines and 1024-deep channels, metadata fan-in order, ReadDataPoints itself (a chunk taken from the channel but then dropped is not seen), OpenDownstream's pre-registration. Precondition (decoder output invariant, C12): id-or-alias fields hold one of their two known dynamic types.", "6/C03"),
 'C04': ("Contract proof of downstream alias assignment and ack numbering kernels: assignUpstreamInfoAlias compares infos by value, returns nil and changes nothing when an equal info is already registered (map-range invariant), otherwise registers exactly one fresh alias (generator value + 1, never a key already present); "
         "assignDataIDAlias mints only fresh aliases, reports exactly the entries it added and leaves existing entries untouched; AliasGenerator.Next and sequenceNumberGenerator.Next advance by exactly one.",
         "NOT decided: 'each chunk acknowledged exactly once' and 'last acks before the close request' (cross-goroutine ordering), behaviour across resume, flushAck's buffer swap (not yet under contract), OpenDownstream's pre-registered aliases. Assumption (A5): fewer than 2^32-1 aliases per stream.", "6/C04"),
 'C10': ("Contract proof of the connection state machine and its use by Conn: Swap/CompareAndSwap/CompareAndSwapNot implement their tables; 'Closed is terminal' is a rely/guarantee pair (rely assumed across Cond.Wait and, as interference, at every call boundary where the state lock is not held; guarantee = every transition site passes Closed only as target or requires a non-Closed source); "
         "WaitUntilOrClosed returns ErrConnectionClosed (never waits) on a closed connection; Conn.send returns ErrConnectionClosed when the connection is closed at entry; Conn.reconnect is panic-free for every interleaved Close and never dials once Closed; Conn.close publishes Closed before it waits for the wire lock.",
         "NOT decided: silence on the wire from other goroutines after Disconnect, at-most-once notifications, goroutine census, stream-level Close/second-Close behaviour (not yet under contract). Interference is modelled only for fields declared guarded, at method-call boundaries and Cond.Wait.", "6/C10"),
 'C18': ("Contract proof of the reconnectable transport's kernels: reconnect (under r.mu) does not dial when the connection was already replaced, never redials a closed transport, and leaves the connection unchanged on failure; "
         "writeLoop answers a request with a nil result only after an underlying Write of that request returned nil, never re-enqueues a request and finishes each dequeued request before the next one (ghost variables `written`/`pending`; so accepted writes reach the successive connections in dequeue order), and returns only with the transport's context done (after the redial budget is exhausted it cancels, so later writes fail instead of blocking); "
         "readLoop never forwards a control ping; the redial closure dials with the original config, the same transport id and the reconnect flag set.",
         "NOT decided: FIFO order of writeReqCh across concurrent writers (channel order), 'at most maxReconnectAttempts dials' (not counted), timing. Assumed: a successful Connector.Connect returns a non-nil transport; Transport.cancel is the cancel function of Transport.ctx (cancelof).", "6/C18"),
 'C16': ("Contract proof of end-to-end call correlation: Conn.call registers a fresh ack channel keyed by its call id before the call can be sent and returns only an ack bearing that id; subscribeReply/receiveReplyCall/SendCallAndWaitReplayCall return only a reply whose RequestCallID is the id of the call they sent (ghost variable bound to the id drawn from randomString); "
         "SendCall/SendReplyCall send exactly the caller's fields under the fresh id and report that id; the two dispatch loops deliver only to the channel registered under the message's id (table monitor invariants + channel invariants), delete exactly that entry, never send under the lock, look every reply up before taking the next message, and the wire dispatcher never drops an ack/call because a consumer is behind (no default arm).",
         "NOT decided: once-each / arrival order of the inbox channels, behaviour across a reconnect between call and ack, freshness of call ids (randomString is an assumed-pure package variable; uuid randomness).", "6/C16"),
 'C12': ("Contract proof of the three decidable lemmas behind 'decoders never crash and accept only self-consistent messages': (1) recover guard - each of the four EncodeTo/DecodeFrom entry points installs, before any call, a deferred closure which (verified with recover() returning an arbitrary non-nil value) is itself panic-free and always leaves a non-nil error; "
         "(2) size gate - validateMessageSize rejects exactly target > max (max != 0) and encoding.Transport.Read hands a frame to the decoder only if it passed the gate (ghost variable bound to the frame length); "
         "(3) decoder output invariant - for every wire input toDataIDOrAlias/toUpstreamOrAlias/toDataPointGroup(s)/toStreamChunk return either an error or values whose id-or-alias positions hold one of the two known dynamic types, no nil group, no nil chunk (the precondition of C03's resolver), and the enum decoders accept exactly the declared constants (so a negative enum number cannot decode to a value that no longer encodes).",
         "NOT decided (and natively a fuzzing property): arbitrary bytes through the generated protobuf unmarshaller and jsonpb (third-party; only known to sit under the recover guard), absence of hangs, the re-encode round trip of whole messages, the goroutine-level recover of the datagram readers.", "6/C12"),
 'C01': ("Contract proof of the chunk-cutting kernel of an upstream (monitor invariant of Upstream.mu; unbounded in the number of data ids, groups and points): flush cuts nothing from an empty buffer (no store, no send, no sequence number) and otherwise exactly one chunk from the whole buffer - numbered old+1, stored once under (stream id, number), handed to exactly one sender goroutine whose result channel is registered under that number - leaving buffer and counters empty and the running total increased by the buffered point count; "
         "toUpstreamChunk emits one group per buffered data id, each group being exactly that id's buffered points; toUpstreamDataPointGroups copies every group's points element by element in order and labels it with the id's alias iff it has one; WriteDataPoints reports success exactly when the points were handed to the flush loop.",
         "NOT decided (scheduler / channel-order facts): that every accepted write reaches the flush loop, that each cut chunk is transmitted exactly once and before the close request, ack-hook exactly-once, the close request's totals (closeWithError is only a TRUSTED frame contract), buffer slices never aliasing a caller's slice (seed C01-1 is not detected). 64-bit totals mathematical (A5).", "6/C01"),
 'C20': ("Contract proof of the flush policies and of where chunks are cut: IsFlush of the five policies (none/interval: never; immediate: always; size and interval-or-size: size > threshold); in flushLoop the write arm appends under the lock, asks the policy with the buffered payload size (as uint32) and calls flush in that iteration iff the policy said so, the other arms may always flush, flush is never called under the lock; "
         "flush cuts everything buffered or nothing (shared with C01); a state snapshot reports the current totals and exactly one group per buffered data id with that id's point count (nothing invented); WriteDataPoints never returns an error for points it handed over.",
         "NOT decided: that Flush is a barrier for points written by other goroutines (rendezvous order), the interval bound (timing), silence of the none/size/immediate tickers. Buffered payload < 2^32 bytes (A5).", "6/C20"),
 'C02': ("Contract proof of the retransmission kernels of a reliable upstream: the store that feeds retransmission is faithful per (stream, sequence number) including payloads (inmemSentStorage, shared with C07) and is the default one chosen by ConnectWithConfig; "
         "the store forgets a chunk only after a result for exactly that chunk was received (sendChunkAndWaitAck), and a nil 'ack timeout' result is produced only after the timeout fired and the surrounding context was then seen not cancelled (so a disconnect is never mistaken for a timeout); "
         "after a reliable resume every listed chunk is sent again under the sequence number it was stored with, with its result channel registered under that number; resume asks for the original stream id and marks the stream connected on success; sequence numbers advance by exactly one (no reuse, shared with C01).",
         "NOT decided (liveness / fault sequences): that a resume eventually happens, cut positions relative to the message stream, two failures in a row beyond the per-function contracts, totals after resume beyond the C01 invariant, the resend payload conversion of stored groups (toUpstreamDataPointGroups is proved under C01).", "6/C02"),
}
NA_REASON_DEFAULT = "check not built yet (framework under construction; see DESIGN.md section 8)"
NA = {}

checks = []
for pid, (text, note, ref) in sorted(CLAIMS.items()):
    checks.append({
        "property_id": pid,
        "quick_cmd": f"./check {pid} quick",
        "thorough_cmd": f"./check {pid} thorough",
        "evidence_file": f"/verif/evidence/{pid}.json",
        "replay_cmd_template": "./check --replay {path}",
        "engine": "govc",
        "level_claimed": {"category": "proof", "text": text, "design_ref": ref},
        "level_note": note + " " + TRUST,
        "technique": "contract-based deductive verification: weakest-precondition style VCs generated from go/ssa of the real code against //@ contracts, discharged by z3/cvc5",
    })
m = {
 "version": 1,
 "setup_cmd": "./setup.sh",
 "hooks": {"guard": "verif", "enable": "contracts are comment-only sidecar files <pkg>/contracts_verif.go guarded by //go:build verif; govc reads them directly, no executable hook exists",
           "baseline_off_cmd": baseline, "source_commits": json.load(open(os.path.join(V, 'tools/hook_commits.json'))), "add_only": True},
 "engines": [{"name": "govc", "path": "/verif/govc", "serves_properties": sorted(CLAIMS), "kind_free_text": "VC generator over go/ssa + SMT (z3 5.1.0, z3 4.8.12, cvc5 1.0); contracts as structured comments in /repo"}],
 "checks": checks,
 "not_applicable": [{"property_id": p['id'], "reason": NA.get(p['id'], NA_REASON_DEFAULT)} for p in props if p['id'] not in CLAIMS],
}
json.dump(m, open(os.path.join(V, 'MANIFEST.json'), 'w'), indent=1)
print("MANIFEST.json:", len(checks), "checks,", len(m['not_applicable']), "not applicable")
