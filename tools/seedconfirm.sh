#!/bin/bash
# usage: seedconfirm.sh <seed-dir> <demo-pkg-dir-relative> [test-run-regex] [extra pkgs to test]
# Confirms a seeded change in a scratch worktree: builds, existing tests of the touched packages pass,
# the demonstration passes without and fails with the change.  RACE=1 runs the demonstration under -race.
set -u
seed=$1; pkg=$2; run=${3:-.}; extra=${4:-}
wt=/tmp/seedv-$$
export GOFLAGS=-mod=mod GOPROXY=off
git -C /repo worktree add -q --detach $wt HEAD || exit 2
cleanup() { git -C /repo worktree remove --force $wt; }
trap cleanup EXIT
demo=$(ls $seed/demo*_test.go $seed/demo_test.go 2>/dev/null | head -1)
cp $demo $wt/$pkg/zz_seed_demo_test.go
cd $wt
echo "== demo WITHOUT change"; go test ${RACE:+-race} -count=1 -run "$run" ./$pkg 2>&1 | tail -3; r0=${PIPESTATUS[0]}
git apply $seed/patch.diff || { echo "PATCH DOES NOT APPLY"; exit 2; }
touched=$(git diff --name-only | xargs -n1 dirname | sort -u | sed 's|^|./|')
echo "== build"; go build ./... && go test -count=1 -run '^$' ./... >/dev/null 2>&1 && echo build-ok
mv $wt/$pkg/zz_seed_demo_test.go /tmp/zz_seed_demo_$$.go
echo "== existing tests of touched packages: $touched $extra"; go test -count=1 $touched $extra 2>&1 | tail -6
mv /tmp/zz_seed_demo_$$.go $wt/$pkg/zz_seed_demo_test.go
echo "== demo WITH change"; go test ${RACE:+-race} -count=1 -run "$run" ./$pkg 2>&1 | tail -5; r1=${PIPESTATUS[0]}
echo "RESULT demo-without-exit=$r0 demo-with-exit=$r1"
