/-
Counting axioms behind the spec builtin `nonnilcount` of govc (DESIGN.md section 3; used by C14).

The SMT side declares an uninterpreted `nncnt : (Array Int Slice) × Int × Int → Int` and assumes four
axioms about it.  Here the same four statements are proved for the intended model: the array is a
function `a : ℤ → Bool` ("slot j is filled"), and `nncnt a off n` is the number of filled slots in
the window `[off, off+n)`.  A store is `Function.update`.
-/
import Mathlib

open Finset

/-- number of filled slots in the window `[off, off+n)` -/
noncomputable def nncnt (a : ℤ → Bool) (off n : ℤ) : ℤ :=
  ∑ j ∈ Finset.Ico off (off + n), (if a j then (1 : ℤ) else 0)

/-- A1: a store at an index inside the window changes the count by the fill difference. -/
theorem nncnt_store (a : ℤ → Bool) (i : ℤ) (v : Bool) (off n : ℤ)
    (h : off ≤ i ∧ i < off + n) :
    nncnt (Function.update a i v) off n
      = nncnt a off n + ((if v then (1 : ℤ) else 0) - (if a i then (1 : ℤ) else 0)) := by
  unfold nncnt
  have hi : i ∈ Finset.Ico off (off + n) := Finset.mem_Ico.mpr h
  have e : (fun j => if Function.update a i v j then (1 : ℤ) else 0)
      = Function.update (fun j => if a j then (1 : ℤ) else 0) i (if v then (1 : ℤ) else 0) := by
    funext j
    by_cases hj : j = i
    · subst hj; simp
    · simp [Function.update_of_ne hj]
  rw [e, Finset.sum_update_of_mem hi, Finset.sdiff_singleton_eq_erase,
    ← Finset.add_sum_erase _ (fun j => if a j then (1 : ℤ) else 0) hi]
  ring

/-- A2: the count lies between 0 and the window length. -/
theorem nncnt_bounds (a : ℤ → Bool) (off n : ℤ) (hn : 0 ≤ n) :
    0 ≤ nncnt a off n ∧ nncnt a off n ≤ n := by
  unfold nncnt
  constructor
  · apply Finset.sum_nonneg
    intro j _
    split <;> norm_num
  · calc ∑ j ∈ Finset.Ico off (off + n), (if a j then (1 : ℤ) else 0)
        ≤ ∑ _j ∈ Finset.Ico off (off + n), (1 : ℤ) := by
          apply Finset.sum_le_sum
          intro j _
          split <;> norm_num
      _ = n := by
          simp [Int.card_Ico]
          omega

/-- A3: a full count means every slot of the window is filled. -/
theorem nncnt_full (a : ℤ → Bool) (off n j : ℤ) (hn : 0 ≤ n)
    (hfull : nncnt a off n = n) (hj : off ≤ j ∧ j < off + n) : a j = true := by
  by_contra hne
  have hjm : j ∈ Finset.Ico off (off + n) := Finset.mem_Ico.mpr hj
  have hfalse : a j = false := by simpa using hne
  -- clearing slot j's contribution: the remaining window has length n - 1 worth of terms
  have hsplit := Finset.add_sum_erase (Finset.Ico off (off + n))
    (fun j => if a j then (1 : ℤ) else 0) hjm
  have hle : ∑ x ∈ (Finset.Ico off (off + n)).erase j, (if a x then (1 : ℤ) else 0)
      ≤ ∑ _x ∈ (Finset.Ico off (off + n)).erase j, (1 : ℤ) := by
    apply Finset.sum_le_sum
    intro x _
    split <;> norm_num
  have hcard : ∑ _x ∈ (Finset.Ico off (off + n)).erase j, (1 : ℤ) = n - 1 := by
    simp [Finset.card_erase_of_mem hjm, Int.card_Ico]
    omega
  unfold nncnt at hfull
  have h0 : (if a j then (1 : ℤ) else 0) = 0 := by simp [hfalse]
  beta_reduce at hsplit
  rw [h0] at hsplit
  omega

/-- A4: an all-empty window counts 0. -/
theorem nncnt_empty (a : ℤ → Bool) (off n : ℤ)
    (h : ∀ j, off ≤ j ∧ j < off + n → a j = false) : nncnt a off n = 0 := by
  unfold nncnt
  apply Finset.sum_eq_zero
  intro j hj
  have := h j (Finset.mem_Ico.mp hj)
  simp [this]
