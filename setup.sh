#!/bin/bash
# Builds the verifier offline from files on disk only.
set -e
cd "$(dirname "$0")/govc"
env -u GOSUMDB GOFLAGS=-mod=mod GOPROXY=off GOTOOLCHAIN=local GOSUMDB=off go build -o ../bin/govc .
