package main

import (
	"os"
	"fmt"
	"go/constant"
	"go/token"
	"go/types"
	"math/big"
	"sort"
	"strings"

	"golang.org/x/tools/go/ssa"
)

// Frame is one activation (top-level function or an inlined callee).
type Frame struct {
	auto bool // an auto-inlined helper (engine.autoInline): part of its caller for anchors and ghost state
	lockPaths map[string]bool // field paths of the mutexes this function acquires (locksum.go)
	selectOk Term // the recvOk value of the select being executed
	sendNonBlocking bool // the send being executed is an arm of a select with a default arm
	cells map[*ssa.Alloc]cellInfo // captured variables only reachable through non-retained closures (cells.go)
	sendCancellable bool // the send being executed is a select arm next to a ctx.Done() receive
	vc      *VC
	fn      *ssa.Function
	key     string
	depth   int
	vals    map[ssa.Value]*Val
	reach   Term   // guard of the current block position
	st      *State // current state
	contr   *FuncContract
	entry   *State
	params  map[string]*Val
	parent  *Frame
	rets    []retPoint
	blockIn map[*ssa.BasicBlock][]edgeIn
	curBlk  *ssa.BasicBlock
	rangeVis map[ssa.Value]string
	rangeMap map[ssa.Value]*Val
	rangeLen map[ssa.Value]Term
	loopHead map[*ssa.BasicBlock]*loopInfo
	top      bool
	curLockArg ssa.Value
	ifaceModSet *ModSet
	curFv    *Val
	curAddr  ssa.Value
}

type edgeIn struct {
	from *ssa.BasicBlock
	cond Term
	st   *State
}

type retPoint struct {
	reach Term
	st    *State
	vals  []*Val
}

type loopInfo struct {
	head    *ssa.BasicBlock
	ordinal int
	blocks  map[*ssa.BasicBlock]bool
	headSt  *State // state right after havoc (for unmodified detection)
	entrySt *State
	oldSt   *State
	dirty   map[string]bool
}

func (fr *Frame) pos(p token.Pos) token.Position {
	if !p.IsValid() {
		p = fr.fn.Pos()
	}
	return fr.fn.Prog.Fset.Position(p)
}

func (fr *Frame) U() *Universe { return fr.vc.U }

func (fr *Frame) alloc() Term { return fr.vc.heap(fr.st, "$alloc", SInt) }

// wf returns the well-formedness constraint of a value of Go type t.
func (fr *Frame) wf(v Term, t types.Type) Term {
	return fr.wfAlloc(v, t, fr.alloc(), 0)
}

func (fr *Frame) wfAlloc(v Term, t types.Type, alloc Term, depth int) Term {
	switch tt := t.Underlying().(type) {
	case *types.Basic:
		if tt.Info()&types.IsInteger != 0 {
			lo, hi := intRange(tt)
			return and(sx("<=", lo, v), sx("<=", v, hi))
		}
		if tt.Info()&types.IsString != 0 {
			return sx("<=", "0", sx("strlen", v))
		}
		if tt.Kind() == types.UnsafePointer {
			return sx("<=", v, alloc)
		}
	case *types.Pointer, *types.Map, *types.Chan, *types.Signature:
		return sx("<=", v, alloc)
	case *types.Slice:
		return and(sx("<=", "0", sx("sarr", v)), sx("<=", sx("sarr", v), alloc), sx("<=", "0", sx("soff", v)), sx("<=", "0", sx("slen", v)),
			sx("<=", sx("slen", v), sx("scap", v)), sx("<=", sx("scap", v), "9223372036854775807"), imp(eq(sx("sarr", v), "0"), and(eq(sx("scap", v), "0"), eq(sx("soff", v), "0"))))
	case *types.Interface:
		return and(sx("<=", "0", sx("itag", v)), imp(eq(sx("itag", v), "0"), eq(sx("ival", v), "0")))
	case *types.Struct:
		if depth > 3 {
			return "true"
		}
		info := fr.U().structInfo[fr.U().sortOf(t)]
		var cs []Term
		for i := 0; i < tt.NumFields(); i++ {
			cs = append(cs, fr.wfAlloc(sx(info.Fields[i], v), tt.Field(i).Type(), alloc, depth+1))
		}
		return and(cs...)
	}
	return "true"
}

func intRange(b *types.Basic) (Term, Term) {
	switch b.Kind() {
	case types.Int8:
		return "(- 128)", "127"
	case types.Int16:
		return "(- 32768)", "32767"
	case types.Int32, types.UntypedRune:
		return "(- 2147483648)", "2147483647"
	case types.Uint8:
		return "0", "255"
	case types.Uint16:
		return "0", "65535"
	case types.Uint32:
		return "0", "4294967295"
	case types.Uint, types.Uint64, types.Uintptr:
		return "0", "18446744073709551615"
	}
	return "(- 9223372036854775808)", "9223372036854775807"
}

func intBits(b *types.Basic) (bits int, signed bool) {
	switch b.Kind() {
	case types.Int8:
		return 8, true
	case types.Int16:
		return 16, true
	case types.Int32, types.UntypedRune:
		return 32, true
	case types.Uint8:
		return 8, false
	case types.Uint16:
		return 16, false
	case types.Uint32:
		return 32, false
	case types.Uint, types.Uint64, types.Uintptr:
		return 64, false
	}
	return 64, true
}

// wrap reduces a mathematical integer to the representable range of b.
// Widths <= 32 are exact; 64-bit is treated as mathematical (A5).
func wrapInt(v Term, t types.Type) Term {
	b, ok := t.Underlying().(*types.Basic)
	if !ok || b.Info()&types.IsInteger == 0 {
		return v
	}
	bits, signed := intBits(b)
	if bits > 32 {
		return v
	}
	m := new(big.Int).Lsh(big.NewInt(1), uint(bits)).String()
	if !signed {
		return sx("mod", v, m)
	}
	h := new(big.Int).Lsh(big.NewInt(1), uint(bits-1)).String()
	return sx("-", sx("mod", sx("+", v, h), m), h)
}

func (fr *Frame) zero(t types.Type) Term {
	U := fr.U()
	switch tt := t.Underlying().(type) {
	case *types.Basic:
		switch {
		case tt.Info()&types.IsBoolean != 0:
			return "false"
		case tt.Info()&types.IsString != 0:
			return U.strConst("")
		case tt.Info()&types.IsFloat != 0:
			return "0.0"
		}
		return "0"
	case *types.Slice:
		return "(mkS 0 0 0 0)"
	case *types.Interface:
		return "(mkI 0 0)"
	case *types.Struct:
		info := U.structInfo[U.sortOf(t)]
		if tt.NumFields() == 0 {
			return info.Ctor
		}
		var fs []Term
		for i := 0; i < tt.NumFields(); i++ {
			fs = append(fs, fr.zero(tt.Field(i).Type()))
		}
		return sx(info.Ctor, fs...)
	case *types.Array:
		s := U.sortOf(t)
		z := "azero!" + s
		U.declFun(z, fmt.Sprintf("(declare-const %s %s)", z, s))
		return z
	}
	return "0"
}

func (fr *Frame) mkVal(t Term, typ types.Type) *Val {
	return &Val{T: t, S: fr.U().sortOf(typ), Typ: typ}
}

// freshVal declares an unconstrained value of type typ and assumes wf.
func (fr *Frame) freshVal(prefix string, typ types.Type) *Val {
	if tup, ok := typ.(*types.Tuple); ok {
		v := &Val{Typ: typ, S: "Tuple"}
		for i := 0; i < tup.Len(); i++ {
			v.Tup = append(v.Tup, fr.freshVal(fmt.Sprintf("%s.%d", prefix, i), tup.At(i).Type()))
		}
		return v
	}
	s := fr.U().sortOf(typ)
	c := fr.vc.fresh(prefix, s)
	fr.vc.assume(fr.reach, fr.wf(c, typ))
	return &Val{T: c, S: s, Typ: typ}
}

func (fr *Frame) constVal(c *ssa.Const) *Val {
	typ := c.Type()
	if c.Value == nil {
		return fr.mkVal(fr.zero(typ), typ)
	}
	switch c.Value.Kind() {
	case constant.Bool:
		if constant.BoolVal(c.Value) {
			return fr.mkVal("true", typ)
		}
		return fr.mkVal("false", typ)
	case constant.String:
		return fr.mkVal(fr.U().strConst(constant.StringVal(c.Value)), typ)
	case constant.Int:
		s := c.Value.ExactString()
		if strings.HasPrefix(s, "-") {
			s = "(- " + s[1:] + ")"
		}
		if b, ok := typ.Underlying().(*types.Basic); ok && b.Info()&types.IsFloat != 0 {
			s += ".0"
			if strings.HasPrefix(s, "(") {
				s = "(- " + strings.TrimSuffix(strings.TrimPrefix(s, "(- "), ").0") + ".0)"
			}
		}
		return fr.mkVal(s, typ)
	case constant.Float:
		f, _ := constant.Float64Val(c.Value)
		r := new(big.Rat).SetFloat64(f)
		if r == nil {
			return fr.freshVal("fconst", typ)
		}
		t := fmt.Sprintf("(/ %s.0 %s.0)", new(big.Int).Abs(r.Num()).String(), r.Denom().String())
		if r.Sign() < 0 {
			t = "(- " + t + ")"
		}
		return fr.mkVal(t, typ)
	}
	return fr.freshVal("const", typ)
}

// val returns the symbolic value of an SSA value.
func (fr *Frame) val(v ssa.Value) *Val {
	if x, ok := fr.vals[v]; ok {
		return x
	}
	switch vv := v.(type) {
	case *ssa.Const:
		return fr.constVal(vv)
	case *ssa.Function:
		return &Val{T: fr.funcRef(vv), S: SInt, Typ: vv.Type(), Fn: vv}
	case *ssa.Global:
		// address of a global: opaque ref; loads/stores go through locOf.
		return &Val{T: fr.globalAddr(vv), S: SInt, Typ: vv.Type()}
	case *ssa.Builtin:
		return &Val{T: "0", S: SInt, Typ: vv.Type()}
	}
	// value defined in a block not yet executed (should not happen in RPO) or unsupported
	fr.vc.note("undefined SSA value %s in %s", v.Name(), fr.fn)
	x := fr.freshVal("undef."+v.Name(), v.Type())
	fr.vals[v] = x
	return x
}

func (fr *Frame) funcRef(f *ssa.Function) Term {
	name := "fn!" + sanitize(f.String())
	fr.U().declFun(name, fmt.Sprintf("(declare-const %s Int)\n(assert (< %s 0))", name, name))
	return name
}

func (fr *Frame) globalAddr(g *ssa.Global) Term {
	name := "gaddr!" + sanitize(g.String())
	fr.U().declFun(name, fmt.Sprintf("(declare-const %s Int)\n(assert (< %s 0))", name, name))
	return name
}

// ---------------------------------------------------------------- locations

// Loc describes a memory location for load/store.
type Loc struct {
	kind  string // "field","elem","ptr","global","local"
	heap  string
	hsort Sort // sort of the heap
	idx   Term // ref (field/ptr)
	idx2  Term // element index (elem)
	typ   types.Type
	// array-in-location: element of an array value stored at base
	base  *Loc
	aidx  Term
	// struct stored as value inside a slice element / local etc: path of fields
	fpath []int
	cellTyp types.Type
}

func structName(t types.Type) string {
	switch tt := t.(type) {
	case *types.Named:
		return tt.Obj().Pkg().Path() + "." + tt.Obj().Name() + typeArgsString(tt)
	case *types.Alias:
		return structName(types.Unalias(tt))
	}
	return "anon." + sanitize(types.TypeString(t, nil))
}

func fieldHeapName(structT types.Type, i int) string {
	st := structT.Underlying().(*types.Struct)
	return "H|" + structName(structT) + "|" + st.Field(i).Name()
}

func isStruct(t types.Type) bool {
	_, ok := t.Underlying().(*types.Struct)
	return ok
}
func isArray(t types.Type) bool {
	_, ok := t.Underlying().(*types.Array)
	return ok
}

func deref(t types.Type) types.Type {
	if p, ok := t.Underlying().(*types.Pointer); ok {
		return p.Elem()
	}
	return t
}

// locOf resolves a pointer-typed SSA value to a location.
func (fr *Frame) locOf(p ssa.Value) *Loc {
	U := fr.U()
	elem := deref(p.Type())
	switch pv := p.(type) {
	case *ssa.FieldAddr:
		st := deref(pv.X.Type())
		ft := st.Underlying().(*types.Struct).Field(pv.Field).Type()
		if bl := fr.interiorLoc(pv.X); bl != nil {
			// field of a struct value that lives inside another location (slice element etc.)
			nl := *bl
			nl.fpath = append(append([]int(nil), bl.fpath...), pv.Field)
			if nl.cellTyp == nil {
				nl.cellTyp = bl.typ
			}
			nl.typ = ft
			return &nl
		}
		base := fr.val(pv.X)
		return &Loc{kind: "field", heap: fieldHeapName(st, pv.Field), hsort: arrSort(SInt, U.sortOf(ft)), idx: base.T, typ: ft}
	case *ssa.IndexAddr:
		xt := pv.X.Type().Underlying()
		switch xtt := xt.(type) {
		case *types.Slice:
			s := fr.val(pv.X)
			i := fr.val(pv.Index)
			hn, hs := U.elemHeapT(xtt.Elem())
			return &Loc{kind: "elem", heap: hn, hsort: hs, idx: sx("sarr", s.T), idx2: sx("eidx", sx("soff", s.T), i.T), typ: xtt.Elem()}
		case *types.Pointer:
			at := xtt.Elem().Underlying().(*types.Array)
			ehn, ehs := U.elemHeapT(at.Elem())
			i := fr.val(pv.Index)
			if fr.isArrayAlloc(pv.X) {
				a := fr.val(pv.X)
				return &Loc{kind: "elem", heap: ehn, hsort: ehs, idx: a.T, idx2: i.T, typ: at.Elem()}
			}
			bl := fr.locOf(pv.X)
			return &Loc{kind: "arrelem", base: bl, aidx: i.T, typ: at.Elem()}
		}
	case *ssa.Global:
		return &Loc{kind: "global", heap: "G|" + pv.String(), hsort: U.sortOf(elem), typ: elem}
	case *ssa.Alloc:
		if !pv.Heap && !isStruct(elem) && !isArray(elem) {
			return &Loc{kind: "global", heap: "L|" + fr.key + "|" + pv.Name(), hsort: U.sortOf(elem), typ: elem}
		}
	}
	v := fr.val(p)
	if isStruct(elem) {
		return &Loc{kind: "struct", idx: v.T, typ: elem}
	}
	phn, phs := U.ptrHeapT(elem)
	return &Loc{kind: "field", heap: phn, hsort: phs, idx: v.T, typ: elem}
}

// isArrayAlloc reports whether p is an Alloc of array type (modelled as a
// fresh backing store in the element heap).
func (fr *Frame) isArrayAlloc(p ssa.Value) bool {
	a, ok := p.(*ssa.Alloc)
	return ok && isArray(deref(a.Type()))
}

// interiorLoc: pointer to a struct that is stored by value inside a slice
// element; such structs are not flattened into field heaps.
func (fr *Frame) interiorLoc(p ssa.Value) *Loc {
	switch pv := p.(type) {
	case *ssa.IndexAddr:
		if isStruct(deref(pv.Type())) {
			return fr.locOf(pv)
		}
	case *ssa.FieldAddr:
		if bl := fr.interiorLoc(pv.X); bl != nil && isStruct(deref(pv.Type())) {
			return fr.locOf(pv)
		}
	}
	return nil
}

func (fr *Frame) nilCheck(p ssa.Value, pos token.Pos, what string) {
	switch p.(type) {
	case *ssa.Alloc, *ssa.Global, *ssa.FieldAddr, *ssa.IndexAddr:
		return
	}
	v := fr.val(p)
	fr.safety("nil", what, pos, not(eq(v.T, "0")))
}

// safety emits an implicit no-panic obligation.
func (fr *Frame) safety(kind, what string, pos token.Pos, cond Term) {
	if fr.vc.noSafety {
		fr.vc.assume(fr.reach, cond)
		return
	}
	p := fr.pos(pos)
	src := fr.vc.eng.srcLine(p)
	name := fmt.Sprintf("%s/%s@%s#%s", relFuncName(fr.vc.fn), kind, what, hash4(src+what))
	if fr.fn != fr.vc.fn {
		name = fmt.Sprintf("%s/%s@%s:%s#%s", relFuncName(fr.vc.fn), kind, relFuncName(fr.fn), what, hash4(src+what))
	}
	fr.vc.oblige(kind, name, p, src, fr.reach, cond, fr.vc.safetyProps(kind))
}

func (fr *Frame) loadLoc(l *Loc) *Val {
	vc := fr.vc
	switch l.kind {
	case "struct":
		return fr.loadStruct(l.idx, l.typ)
	case "arrelem":
		arr := fr.loadLoc(l.base)
		return fr.mkVal(sx("aget!"+arr.S, arr.T, l.aidx), l.typ)
	}
	var t Term
	var baseT types.Type = l.typ
	var heapTerm Term
	switch l.kind {
	case "field":
		heapTerm = vc.heap(fr.st, l.heap, l.hsort)
		t = sel(heapTerm, l.idx)
	case "elem":
		heapTerm = vc.heap(fr.st, l.heap, l.hsort)
		t = sel(sel(heapTerm, l.idx), l.idx2)
	case "global":
		heapTerm = vc.heap(fr.st, l.heap, l.hsort)
		t = heapTerm
	}
	if len(l.fpath) > 0 {
		// l.typ is the final type; walk from the element type
		bt := fr.locBaseType(l)
		for _, f := range l.fpath {
			info := fr.U().structInfo[fr.U().sortOf(bt)]
			t = sx(info.Fields[f], t)
			bt = bt.Underlying().(*types.Struct).Field(f).Type()
		}
		baseT = bt
	}
	if isStruct(baseT) && l.kind == "field" && len(l.fpath) == 0 {
		// struct-valued field of a heap struct: flattened at faddr
		return fr.loadStruct(fr.fieldAddrTerm(l), baseT)
	}
	v := fr.mkVal(t, baseT)
	v.T = vc.define("ld", v.S, v.T)
	vc.assume(fr.reach, fr.wfAlloc(v.T, baseT, vc.allocBound(heapTerm, fr.alloc()), 0))
	return v
}

func (fr *Frame) locBaseType(l *Loc) types.Type {
	// element type of the underlying heap cell for interior locations
	switch l.kind {
	}
	if l.cellTyp != nil {
		return l.cellTyp
	}
	return l.typ
}

// fieldAddrTerm is the ref of a struct-valued field embedded in a heap struct.
func (fr *Frame) fieldAddrTerm(l *Loc) Term {
	return fr.vc.faddr(l.heap, l.idx)
}

func (fr *Frame) loadStruct(ref Term, t types.Type) *Val {
	U := fr.U()
	st := t.Underlying().(*types.Struct)
	info := U.structInfo[U.sortOf(t)]
	if st.NumFields() == 0 {
		return fr.mkVal(info.Ctor, t)
	}
	var fs []Term
	for i := 0; i < st.NumFields(); i++ {
		ft := st.Field(i).Type()
		l := &Loc{kind: "field", heap: fieldHeapName(t, i), hsort: arrSort(SInt, U.sortOf(ft)), idx: ref, typ: ft}
		fs = append(fs, fr.loadLoc(l).T)
	}
	return fr.mkVal(sx(info.Ctor, fs...), t)
}

func (fr *Frame) storeStruct(ref Term, t types.Type, v Term) {
	U := fr.U()
	st := t.Underlying().(*types.Struct)
	info := U.structInfo[U.sortOf(t)]
	for i := 0; i < st.NumFields(); i++ {
		ft := st.Field(i).Type()
		l := &Loc{kind: "field", heap: fieldHeapName(t, i), hsort: arrSort(SInt, U.sortOf(ft)), idx: ref, typ: ft}
		fr.storeLoc(l, sx(info.Fields[i], v))
	}
}

func (fr *Frame) storeLoc(l *Loc, v Term) {
	vc := fr.vc
	switch l.kind {
	case "struct":
		fr.storeStruct(l.idx, l.typ, v)
		return
	case "arrelem":
		arr := fr.loadLoc(l.base)
		fr.U().arrSetUsed(arr.S)
		fr.storeLoc(l.base, sx("aset!"+arr.S, arr.T, l.aidx, v))
		return
	}
	if len(l.fpath) > 0 {
		// rebuild the enclosing struct value
		bl := *l
		bl.fpath = nil
		bt := fr.locBaseType(l)
		bl.typ = bt
		cur := fr.loadLocRaw(&bl)
		v = fr.updatePath(cur, bt, l.fpath, v)
		l = &bl
	} else if isStruct(l.typ) && l.kind == "field" {
		fr.storeStruct(fr.fieldAddrTerm(l), l.typ, v)
		return
	}
	switch l.kind {
	case "field":
		fr.markDirty(l.heap, l.idx)
		h := vc.heap(fr.st, l.heap, l.hsort)
		vc.setHeap(fr.st, l.heap, l.hsort, store(h, l.idx, v))
	case "elem":
		fr.markDirty(l.heap, l.idx)
		h := vc.heap(fr.st, l.heap, l.hsort)
		vc.setHeap(fr.st, l.heap, l.hsort, store(h, l.idx, store(sel(h, l.idx), l.idx2, v)))
	case "global":
		vc.setHeap(fr.st, l.heap, l.hsort, v)
	}
}

func (fr *Frame) loadLocRaw(l *Loc) Term {
	vc := fr.vc
	switch l.kind {
	case "field":
		return sel(vc.heap(fr.st, l.heap, l.hsort), l.idx)
	case "elem":
		return sel(sel(vc.heap(fr.st, l.heap, l.hsort), l.idx), l.idx2)
	case "global":
		return vc.heap(fr.st, l.heap, l.hsort)
	}
	panic("loadLocRaw " + l.kind)
}

func (fr *Frame) updatePath(cur Term, t types.Type, path []int, v Term) Term {
	if len(path) == 0 {
		return v
	}
	st := t.Underlying().(*types.Struct)
	info := fr.U().structInfo[fr.U().sortOf(t)]
	var fs []Term
	for i := 0; i < st.NumFields(); i++ {
		f := sx(info.Fields[i], cur)
		if i == path[0] {
			f = fr.updatePath(f, st.Field(i).Type(), path[1:], v)
		}
		fs = append(fs, f)
	}
	return sx(info.Ctor, fs...)
}

// ------------------------------------------------------------------ running

func (fr *Frame) run(entryReach Term, entrySt *State) {
	fn := fr.fn
	if len(fn.Blocks) == 0 {
		fr.vc.note("function without body: %s", fn)
		return
	}
	fr.blockIn = map[*ssa.BasicBlock][]edgeIn{}
	fr.rangeVis = map[ssa.Value]string{}
	fr.rangeMap = map[ssa.Value]*Val{}
	fr.rangeLen = map[ssa.Value]Term{}
	fr.findLoops()
	order := fr.rpo()
	fr.blockIn[fn.Blocks[0]] = []edgeIn{{from: nil, cond: entryReach, st: entrySt}}
	for _, b := range order {
		if fn.Recover != nil && b == fn.Recover {
			continue
		}
		ins := fr.blockIn[b]
		if len(ins) == 0 {
			continue // unreachable
		}
		fr.curBlk = b
		li := fr.loopHead[b]
		var conds []Term
		var sts []*State
		for _, e := range ins {
			conds = append(conds, e.cond)
			sts = append(sts, e.st)
		}
		fr.reach = fr.vc.define(fmt.Sprintf("reach.%s.b%d", fr.key, b.Index), SBool, or(conds...))
		fr.st = fr.vc.mergeStates(conds, sts)
		// phis
		for _, in := range b.Instrs {
			phi, ok := in.(*ssa.Phi)
			if !ok {
				break
			}
			if li != nil {
				continue // handled in loop entry
			}
			fr.vals[phi] = fr.mergePhi(phi, ins)
		}
		if li != nil {
			fr.enterLoop(li, ins)
		}
		if os.Getenv("GOVC_BLOCKCOVER") != "" && fr.vc.lemma == nil {
			// audit aid (not part of any check): is this block reachable in the VC at all?
			pos := token.NoPos
			for _, in := range b.Instrs {
				if in.Pos().IsValid() {
					pos = in.Pos()
					break
				}
			}
			o := fr.vc.coverRel(fmt.Sprintf("%s/cover.block@%s.b%d(%s)", relFuncName(fr.vc.fn), fr.key, b.Index, b.Comment), fr.pos(pos), fr.reach, nil)
			o.Kind = "blockcover"
		}
		fr.execBlock(b)
	}
}

func (fr *Frame) mergePhi(phi *ssa.Phi, ins []edgeIn) *Val {
	b := phi.Block()
	var vs []*Val
	var cs []Term
	for _, e := range ins {
		for pi, p := range b.Preds {
			if p == e.from {
				vs = append(vs, fr.val(phi.Edges[pi]))
				cs = append(cs, e.cond)
				break
			}
		}
	}
	if len(vs) == 0 {
		return fr.freshVal("phi", phi.Type())
	}
	return fr.mergeVals("phi."+phi.Name(), cs, vs, phi.Type())
}

func (fr *Frame) mergeVals(prefix string, cs []Term, vs []*Val, typ types.Type) *Val {
	if len(vs[0].Tup) > 0 {
		out := &Val{Typ: typ, S: "Tuple"}
		for i := range vs[0].Tup {
			var sub []*Val
			for _, v := range vs {
				sub = append(sub, v.Tup[i])
			}
			out.Tup = append(out.Tup, fr.mergeVals(fmt.Sprintf("%s.%d", prefix, i), cs, sub, vs[0].Tup[i].Typ))
		}
		return out
	}
	t := vs[len(vs)-1].T
	for i := len(vs) - 2; i >= 0; i-- {
		t = ite(cs[i], vs[i].T, t)
	}
	out := fr.mkVal(t, typ)
	out.T = fr.vc.define(prefix, out.S, out.T)
	// keep static function info if all agree
	same := true
	for _, v := range vs {
		if v.Fn != vs[0].Fn {
			same = false
		}
	}
	if same && len(vs) == 1 {
		out.Fn, out.Binds = vs[0].Fn, vs[0].Binds
	}
	return out
}

func (fr *Frame) rpo() []*ssa.BasicBlock {
	seen := map[*ssa.BasicBlock]bool{}
	var post []*ssa.BasicBlock
	var dfs func(b *ssa.BasicBlock)
	dfs = func(b *ssa.BasicBlock) {
		seen[b] = true
		for _, s := range b.Succs {
			if !seen[s] {
				dfs(s)
			}
		}
		post = append(post, b)
	}
	dfs(fr.fn.Blocks[0])
	for i, j := 0, len(post)-1; i < j; i, j = i+1, j-1 {
		post[i], post[j] = post[j], post[i]
	}
	return post
}

func (fr *Frame) findLoops() {
	fr.loopHead = map[*ssa.BasicBlock]*loopInfo{}
	fn := fr.fn
	for _, b := range fn.Blocks {
		for _, s := range b.Succs {
			if s.Dominates(b) { // back edge b -> s
				li := fr.loopHead[s]
				if li == nil {
					li = &loopInfo{head: s, blocks: map[*ssa.BasicBlock]bool{s: true}}
					fr.loopHead[s] = li
				}
				// natural loop body
				stack := []*ssa.BasicBlock{b}
				for len(stack) > 0 {
					x := stack[len(stack)-1]
					stack = stack[:len(stack)-1]
					if li.blocks[x] {
						continue
					}
					li.blocks[x] = true
					stack = append(stack, x.Preds...)
				}
			}
		}
	}
	// ordinals in source order of the header position
	var heads []*loopInfo
	for _, li := range fr.loopHead {
		heads = append(heads, li)
	}
	sort.Slice(heads, func(i, j int) bool { return loopPos(heads[i]) < loopPos(heads[j]) })
	for i, li := range heads {
		li.ordinal = i + 1
	}
}

func loopPos(li *loopInfo) token.Pos {
	best := token.Pos(1 << 40)
	for b := range li.blocks {
		for _, in := range b.Instrs {
			if p := in.Pos(); p.IsValid() && p < best {
				best = p
			}
		}
	}
	if best == token.Pos(1<<40) {
		return token.Pos(li.head.Index)
	}
	return best
}

func (fr *Frame) isBackEdge(from, to *ssa.BasicBlock) bool {
	return to.Dominates(from) && fr.loopHead[to] != nil
}

func (fr *Frame) addEdge(from, to *ssa.BasicBlock, cond Term) {
	c := fr.vc.define(fmt.Sprintf("edge.%s.b%d.b%d", fr.key, from.Index, to.Index), SBool, cond)
	if fr.isBackEdge(from, to) {
		fr.backEdge(fr.loopHead[to], from, c)
		return
	}
	fr.blockIn[to] = append(fr.blockIn[to], edgeIn{from: from, cond: c, st: fr.st.clone()})
}

func (fr *Frame) loopKey(li *loopInfo) string {
	return fmt.Sprintf("%s#loop%d", fr.key, li.ordinal)
}

// enterLoop: invariant on entry, havoc, assume invariant.
func (fr *Frame) enterLoop(li *loopInfo, ins []edgeIn) {
	vc := fr.vc
	b := li.head
	li.oldSt = fr.st.clone() // state on entry (merged)
	// 1. phi values on entry, then check invariants on entry
	entryVals := map[*ssa.Phi]*Val{}
	for _, in := range b.Instrs {
		phi, ok := in.(*ssa.Phi)
		if !ok {
			break
		}
		entryVals[phi] = fr.mergePhi(phi, ins)
	}
	invs := fr.loopInvariants(li)
	for phi, v := range entryVals {
		fr.vals[phi] = v
	}
	for i, inv := range invs {
		t, err := fr.evalSpecBool(inv.Expr, fr.specEnvLoop(li))
		if err != nil {
			vc.specError(fr, inv, err)
			continue
		}
		vc.oblige("loop.entry", fmt.Sprintf("%s/loop%d.inv%d.entry", relFuncName(fr.fn), li.ordinal, i+1), fr.pos(b.Instrs[0].Pos()), inv.Text, fr.reach, t, inv.Props)
	}
	for _, ai := range fr.autoInvTerms(li) {
		vc.oblige("loop.entry", fmt.Sprintf("%s/loop%d.%s.entry", relFuncName(fr.fn), li.ordinal, ai.name), fr.pos(b.Instrs[0].Pos()), ai.text, fr.reach, ai.term, fr.vc.allProps(fr.contr))
	}
	// 2. havoc every known heap that the previous pass did not find unmodified
	unmod := vc.loopUnmod[fr.loopKey(li)]
	var names []string
	for n := range vc.known {
		names = append(names, n)
	}
	sort.Strings(names)
	for _, n := range names {
		if unmod != nil && unmod[n] {
			continue
		}
		if n == "$alloc" || n == lockW || n == lockR {
			continue // lock state is loop-invariant by the lock.balance@loop obligation at every back edge
		}
		vc.initHeap(n, vc.known[n])
		entryTerm := vc.heap(fr.st, n, vc.known[n])
		if dirtyPrev := vc.loopUnmod[fr.loopKey(li)+"#dirty"]; dirtyPrev != nil && !dirtyPrev[n] && !strings.HasPrefix(n, "$") && !strings.HasPrefix(n, "G|") && !strings.HasPrefix(n, "L|") && strings.HasPrefix(vc.known[n], "(Array Int ") {
			// only objects allocated inside the loop body (or by callees) are written through this heap:
			// every object that existed when the loop was entered keeps its value
			vc.frameHeap(fr.st, n, entryTerm, vc.heap(li.oldSt, "$alloc", SInt), nil)
		} else {
			vc.havocHeap(fr.st, n)
		}
	}
	{
		a0 := fr.alloc()
		na := vc.fresh("$alloc", SInt)
		vc.initHeap("$alloc", SInt)
		fr.st.heaps["$alloc"] = na
		vc.assume(fr.reach, sx(">=", na, a0))
	}
	li.headSt = fr.st.clone()
	for _, in := range b.Instrs {
		phi, ok := in.(*ssa.Phi)
		if !ok {
			break
		}
		fr.vals[phi] = fr.freshVal("loop."+phi.Name(), phi.Type())
	}
	// 3. assume invariants
	for _, ai := range fr.autoInvTerms(li) {
		vc.assume(fr.reach, ai.assume)
	}
	for _, inv := range invs {
		t, err := fr.evalSpecAssume(inv.Expr, fr.specEnvLoop(li))
		if err != nil {
			continue
		}
		vc.assume(fr.reach, t)
	}
	if len(invs) > 0 && fr.top {
		vc.cover(fmt.Sprintf("%s/loop%d.cover", relFuncName(fr.fn), li.ordinal), fr.pos(b.Instrs[0].Pos()), fr.reach, invs[0].Props)
	}
}

func (fr *Frame) backEdge(li *loopInfo, from *ssa.BasicBlock, cond Term) {
	vc := fr.vc
	// detect unmodified heaps: term at the back edge identical to the term at the head
	key := fr.loopKey(li)
	um := map[string]bool{}
	termAt := func(st *State, n string) Term {
		if t, ok := st.heaps[n]; ok {
			return t
		}
		return sanitize(n) + "@0"
	}
	for n := range vc.known {
		if n == "$alloc" {
			continue
		}
		if termAt(li.headSt, n) == termAt(fr.st, n) {
			um[n] = true
		}
	}
	if li.dirty == nil {
		li.dirty = map[string]bool{}
	}
	vc.loopUnmodNext[key+"#dirty"] = li.dirty
	if prev, seen := vc.loopUnmodNext[key]; !seen {
		vc.loopUnmodNext[key] = um
	} else {
		for n := range prev {
			if !um[n] {
				delete(prev, n)
			}
		}
	}
	// defers inside loops are not supported
	if len(fr.st.defers) != len(li.headSt.defers) {
		vc.note("defer inside loop in %s (unsupported)", fr.fn)
	}
	// invariant preservation: evaluate with phi values taken from this edge
	saved := map[*ssa.Phi]*Val{}
	b := li.head
	for _, in := range b.Instrs {
		phi, ok := in.(*ssa.Phi)
		if !ok {
			break
		}
		saved[phi] = fr.vals[phi]
	}
	newVals := map[*ssa.Phi]*Val{}
	for phi := range saved {
		for pi, p := range b.Preds {
			if p == from {
				newVals[phi] = fr.val(phi.Edges[pi])
			}
		}
	}
	for phi, v := range newVals {
		fr.vals[phi] = v
	}
	savedReach := fr.reach
	fr.reach = cond
	for i, inv := range fr.loopInvariants(li) {
		t, err := fr.evalSpecBool(inv.Expr, fr.specEnvLoop(li))
		if err != nil {
			vc.specError(fr, inv, err)
			continue
		}
		vc.oblige("loop.preserve", fmt.Sprintf("%s/loop%d.inv%d.preserve", relFuncName(fr.fn), li.ordinal, i+1), fr.pos(from.Instrs[len(from.Instrs)-1].Pos()), inv.Text, cond, t, inv.Props)
	}
	for _, ai := range fr.autoInvTerms(li) {
		vc.oblige("loop.preserve", fmt.Sprintf("%s/loop%d.%s.preserve", relFuncName(fr.fn), li.ordinal, ai.name), fr.pos(from.Instrs[len(from.Instrs)-1].Pos()), ai.text, cond, ai.term, fr.vc.allProps(fr.contr))
	}
	// lock state must be loop-invariant
	fr.lockBalanceAt(li.headSt, "loop", fr.pos(b.Instrs[0].Pos()))
	fr.reach = savedReach
	for phi, v := range saved {
		fr.vals[phi] = v
	}
}

func (fr *Frame) execBlock(b *ssa.BasicBlock) {
	for _, in := range b.Instrs {
		fr.exec(in)
	}
}

func hash4(s string) string {
	var h uint32 = 2166136261
	for i := 0; i < len(s); i++ {
		h ^= uint32(s[i])
		h *= 16777619
	}
	return fmt.Sprintf("%04x", h&0xffff)
}

func relFuncName(f *ssa.Function) string {
	if f.Pkg != nil {
		return f.RelString(f.Pkg.Pkg)
	}
	if f.Parent() != nil {
		return relFuncName(f.Parent()) + "$" + strings.TrimPrefix(f.Name(), f.Parent().Name()+"$")
	}
	return f.String()
}


type autoInv struct {
	name   string
	text   string
	term   Term // to prove (quantifiers skolemised)
	assume Term // to assume (quantified form)
}

// autoInvTerms: invariants that need no annotation.
//  (a) counters: a header phi that starts at a constant and is only ever
//      incremented by a positive constant stays >= its start (64-bit, A5);
//  (b) loop frame: a function with a `modifies` clause keeps every location
//      not listed there unchanged in every iteration (as in Dafny).
func (fr *Frame) autoInvTerms(li *loopInfo) []autoInv {
	var out []autoInv
	b := li.head
	for _, in := range b.Instrs {
		phi, ok := in.(*ssa.Phi)
		if !ok {
			break
		}
		bt, ok := phi.Type().Underlying().(*types.Basic)
		if !ok || (bt.Kind() != types.Int && bt.Kind() != types.Int64) {
			continue
		}
		var start *ssa.Const
		good := true
		for pi, p := range b.Preds {
			e := phi.Edges[pi]
			if li.blocks[p] { // back edge
				bo, ok := e.(*ssa.BinOp)
				if !ok || bo.Op != token.ADD || bo.X != phi {
					good = false
					break
				}
				k, ok := bo.Y.(*ssa.Const)
				if !ok || k.Value == nil || k.Int64() <= 0 {
					good = false
					break
				}
			} else {
				c, ok := e.(*ssa.Const)
				if !ok || c.Value == nil {
					good = false
					break
				}
				if start != nil && start.Int64() != c.Int64() {
					good = false
					break
				}
				start = c
			}
		}
		if !good || start == nil {
			continue
		}
		v, ok := fr.vals[phi]
		if !ok {
			continue
		}
		t := sx(">=", v.T, num(start.Int64()))
		name := phi.Comment
		if name == "" {
			name = phi.Name()
		}
		out = append(out, autoInv{name: "auto." + name + ".lower", text: fmt.Sprintf("%s >= %d (counter)", name, start.Int64()), term: t, assume: t})
	}
	if fr.top && fr.contr != nil && fr.contr.HasModifies {
		out = append(out, fr.loopFrame(li)...)
	}
	return out
}

func (fr *Frame) loopFrame(li *loopInfo) []autoInv {
	vc := fr.vc
	n := 9000
	env := &SpecEnv{fr: fr, vars: fr.params, cur: fr.entry, old: fr.entry, pkg: pkgOf(fr.fn), nq: &n}
	targets := fr.modTargets(fr.contr, env)
	byHeap := map[string][]modTarget{}
	for _, t := range targets {
		byHeap[t.heap] = append(byHeap[t.heap], t)
	}
	alloc0 := vc.heap(fr.entry, "$alloc", SInt)
	var names []string
	for nme := range fr.st.heaps {
		names = append(names, nme)
	}
	sort.Strings(names)
	var out []autoInv
	for _, nme := range names {
		if strings.HasPrefix(nme, "$") || strings.HasPrefix(nme, "L|") || strings.HasPrefix(nme, "G|") {
			continue
		}
		hs := vc.heapSorts[nme]
		cur := fr.st.heaps[nme]
		old := vc.heap(fr.entry, nme, hs)
		if cur == old {
			continue
		}
		whole := false
		mk := func(r Term) Term {
			conds := []Term{sx("<=", r, alloc0)}
			for _, t := range byHeap[nme] {
				if t.idx == "" {
					whole = true
				}
				conds = append(conds, not(eq(r, t.idx)))
			}
			return imp(and(conds...), eq(sel(cur, r), sel(old, r)))
		}
		sk := "frame.sk!" + sanitize(nme) + "!" + fmt.Sprint(li.ordinal)
		if !vc.declared[sk] {
			vc.declared[sk] = true
			vc.decls = append(vc.decls, fmt.Sprintf("(declare-const %s Int)", sk))
		}
		prove := mk(sk)
		if whole {
			continue
		}
		assume := fmt.Sprintf("(forall ((r!q Int)) (! %s :pattern ((select %s r!q))))", mk("r!q"), cur)
		out = append(out, autoInv{name: "frame@" + nme, text: "loop frame (from modifies clause) for " + nme, term: prove, assume: assume})
	}
	return out
}
