package main

import (
	"fmt"
	"strings"
	"go/token"
	"go/types"

	"golang.org/x/tools/go/ssa"
)

// Assumed contracts for external code (DESIGN.md A1). Every entry used by a
// run is listed in the evidence under assumed_externals.

type staticHandler func(fr *Frame, c *ssa.CallCommon, args []*Val, argVals []ssa.Value, pos token.Pos) *Val
type invokeHandler func(fr *Frame, c *ssa.CallCommon, recv *Val, args []*Val, pos token.Pos) *Val

var externStatic map[string]staticHandler
var externInvoke map[string]invokeHandler

const (
	lockW = "$LW"
	lockR = "$LR"
	lockRel = "$LRel" // 1 once this activation has released the lock: a later acquisition is an interference point
)

var lockSort = arrSort(SInt, SInt)

func (fr *Frame) lockW() Term { return fr.vc.heap(fr.st, lockW, lockSort) }
func (fr *Frame) lockR() Term { return fr.vc.heap(fr.st, lockR, lockSort) }

func (fr *Frame) lockOblige(kind, what string, pos token.Pos, cond Term) {
	if !fr.vc.eng.lockChecks {
		fr.vc.assume(fr.reach, cond)
		return
	}
	p := fr.pos(pos)
	src := fr.vc.eng.srcLine(p)
	name := fmt.Sprintf("%s/%s@%s#%s", relFuncName(fr.vc.fn), kind, what, hash4(src))
	if fr.fn != fr.vc.fn {
		name = fmt.Sprintf("%s/%s@%s:%s#%s", relFuncName(fr.vc.fn), kind, relFuncName(fr.fn), what, hash4(src))
	}
	fr.vc.oblige(kind, name, p, src, fr.reach, cond, fr.vc.lockProps())
}

// condLockedDecl: v is the condition variable read from a field declared `condlocked` for the running property.
func (fr *Frame) condLockedDecl(v ssa.Value) *GuardDecl {
	_, n, field := fr.fieldOf(v)
	if n == nil || n.Obj().Pkg() == nil {
		return nil
	}
	pc := fr.vc.eng.contracts[n.Obj().Pkg().Path()]
	if pc == nil {
		return nil
	}
	for _, g := range pc.CondLocked {
		if g.Type == n.Obj().Name() && g.Mutex == field && hasProp(g.Props, fr.vc.prop) {
			for _, ex := range g.Fields {
				if nm := relFuncName(fr.vc.fn); nm == ex || strings.HasPrefix(nm, ex+"$") {
					return nil
				}
			}
			return g
		}
	}
	return nil
}

// condOblige: a wake-up of a `condlocked` condition variable happens with its lock held.
func (fr *Frame) condOblige(g *GuardDecl, what string, pos token.Pos, cond Term) {
	p := fr.pos(pos)
	src := fr.vc.eng.srcLine(p)
	name := fmt.Sprintf("%s/cond.signal-unlocked@%s.%s:%s#%s", relFuncName(fr.vc.fn), g.Type, g.Mutex, what, hash4(src))
	if fr.fn != fr.vc.fn {
		name = fmt.Sprintf("%s/cond.signal-unlocked@%s:%s.%s:%s#%s", relFuncName(fr.vc.fn), relFuncName(fr.fn), g.Type, g.Mutex, what, hash4(src))
	}
	fr.vc.oblige("cond.signal-unlocked", name, p, src, fr.reach, cond, g.Props)
}

func (fr *Frame) doLock(id Term, pos token.Pos) {
	vc := fr.vc
	fr.lockOblige("lock.relock", "Lock", pos, and(eq(sel(fr.lockW(), id), "0"), eq(sel(fr.lockR(), id), "0")))
	vc.setHeap(fr.st, lockW, lockSort, store(fr.lockW(), id, "1"))
	fr.onAcquire(id, true, pos)
}
func (fr *Frame) doUnlock(id Term, pos token.Pos) {
	vc := fr.vc
	fr.lockOblige("lock.unlock-unheld", "Unlock", pos, eq(sel(fr.lockW(), id), "1"))
	fr.onRelease(id, true, pos)
	vc.setHeap(fr.st, lockW, lockSort, store(fr.lockW(), id, "0"))
	vc.setHeap(fr.st, lockRel, lockSort, store(vc.heap(fr.st, lockRel, lockSort), id, "1"))
}
func (fr *Frame) doRLock(id Term, pos token.Pos) {
	vc := fr.vc
	// sync.RWMutex: "if a goroutine holds a RWMutex for reading and another goroutine might call Lock, no
	// goroutine should expect to be able to acquire a read lock until the initial read lock is released" -
	// recursive read locking deadlocks as soon as a writer queues up in between
	fr.lockOblige("lock.relock", "RLock", pos, and(eq(sel(fr.lockW(), id), "0"), eq(sel(fr.lockR(), id), "0")))
	vc.setHeap(fr.st, lockR, lockSort, store(fr.lockR(), id, sx("+", sel(fr.lockR(), id), "1")))
	fr.onAcquire(id, false, pos)
}
func (fr *Frame) doRUnlock(id Term, pos token.Pos) {
	vc := fr.vc
	fr.lockOblige("lock.unlock-unheld", "RUnlock", pos, sx(">=", sel(fr.lockR(), id), "1"))
	fr.onRelease(id, false, pos)
	vc.setHeap(fr.st, lockR, lockSort, store(fr.lockR(), id, sx("-", sel(fr.lockR(), id), "1")))
	vc.setHeap(fr.st, lockRel, lockSort, store(vc.heap(fr.st, lockRel, lockSort), id, "1"))
}

// lockBalanceAt: lock state must equal the reference state (entry or loop head).
func (fr *Frame) lockBalanceAt(ref *State, what string, p token.Position) {
	vc := fr.vc
	if !vc.eng.lockChecks {
		return
	}
	if _, ok := vc.known[lockW]; !ok {
		if _, ok2 := vc.known[lockR]; !ok2 {
			return
		}
	}
	w0, r0 := vc.heap(ref, lockW, lockSort), vc.heap(ref, lockR, lockSort)
	w1, r1 := fr.lockW(), fr.lockR()
	if w0 == w1 && r0 == r1 {
		return
	}
	name := fmt.Sprintf("%s/lock.balance@%s", relFuncName(fr.vc.fn), what)
	vc.oblige("lock.balance", name, p, what, fr.reach, and(eq(w0, w1), eq(r0, r1)), vc.lockProps())
}

func retNil(fr *Frame, c *ssa.CallCommon) *Val {
	rt := resultType(c)
	if rt == nil {
		return nil
	}
	return fr.freshVal("ext", rt)
}

func init() {
	externStatic = map[string]staticHandler{}
	externInvoke = map[string]invokeHandler{}
	S := externStatic
	S["(*sync.Mutex).Lock"] = func(fr *Frame, c *ssa.CallCommon, a []*Val, av []ssa.Value, pos token.Pos) *Val {
		fr.curLockArg = av[0]
		fr.doLock(a[0].T, pos)
		return nil
	}
	S["(*sync.Mutex).Unlock"] = func(fr *Frame, c *ssa.CallCommon, a []*Val, av []ssa.Value, pos token.Pos) *Val {
		fr.curLockArg = av[0]
		fr.doUnlock(a[0].T, pos)
		return nil
	}
	S["(*sync.Mutex).TryLock"] = func(fr *Frame, c *ssa.CallCommon, a []*Val, av []ssa.Value, pos token.Pos) *Val {
		fr.vc.note("TryLock in %s not modelled", fr.fn)
		return retNil(fr, c)
	}
	S["(*sync.RWMutex).Lock"] = S["(*sync.Mutex).Lock"]
	S["(*sync.RWMutex).Unlock"] = S["(*sync.Mutex).Unlock"]
	S["(*sync.RWMutex).RLock"] = func(fr *Frame, c *ssa.CallCommon, a []*Val, av []ssa.Value, pos token.Pos) *Val {
		fr.curLockArg = av[0]
		fr.doRLock(a[0].T, pos)
		return nil
	}
	S["(*sync.RWMutex).RUnlock"] = func(fr *Frame, c *ssa.CallCommon, a []*Val, av []ssa.Value, pos token.Pos) *Val {
		fr.curLockArg = av[0]
		fr.doRUnlock(a[0].T, pos)
		return nil
	}
	S["(*sync.RWMutex).RLocker"] = func(fr *Frame, c *ssa.CallCommon, a []*Val, av []ssa.Value, pos token.Pos) *Val {
		fr.vc.note("RLocker in %s not modelled", fr.fn)
		return retNil(fr, c)
	}
	// sync.Cond: Wait requires L held; releases and re-acquires: monitor invariant re-established
	S["(*sync.Cond).Wait"] = func(fr *Frame, c *ssa.CallCommon, a []*Val, av []ssa.Value, pos token.Pos) *Val {
		U := fr.U()
		ft := a[0].Typ.Underlying().(*types.Pointer).Elem()
		st := ft.Underlying().(*types.Struct)
		li := -1
		for i := 0; i < st.NumFields(); i++ {
			if st.Field(i).Name() == "L" {
				li = i
			}
		}
		hn := fieldHeapName(ft, li)
		l := sel(fr.vc.heap(fr.st, hn, arrSort(SInt, U.sortOf(st.Field(li).Type()))), a[0].T)
		id := sx("ival", l)
		fr.lockOblige("lock.wait-unheld", "Cond.Wait", pos, or(eq(sel(fr.lockW(), id), "1"), sx(">=", sel(fr.lockR(), id), "1")))
		fr.curLockArg = av[0]
		fr.onCondWait(id, pos)
		return nil
	}
	S["(*sync.Cond).Broadcast"] = func(fr *Frame, c *ssa.CallCommon, a []*Val, av []ssa.Value, pos token.Pos) *Val {
		if g := fr.condLockedDecl(av[0]); g != nil {
			U := fr.U()
			ft := a[0].Typ.Underlying().(*types.Pointer).Elem()
			st := ft.Underlying().(*types.Struct)
			li := -1
			for i := 0; i < st.NumFields(); i++ {
				if st.Field(i).Name() == "L" {
					li = i
				}
			}
			hn := fieldHeapName(ft, li)
			l := sel(fr.vc.heap(fr.st, hn, arrSort(SInt, U.sortOf(st.Field(li).Type()))), a[0].T)
			id := sx("ival", l)
			fr.condOblige(g, "call", pos, or(eq(sel(fr.lockW(), id), "1"), sx(">=", sel(fr.lockR(), id), "1")))
		}
		return nil
	}
	S["(*sync.Cond).Signal"] = S["(*sync.Cond).Broadcast"]
	S["sync.NewCond"] = func(fr *Frame, c *ssa.CallCommon, a []*Val, av []ssa.Value, pos token.Pos) *Val {
		U := fr.U()
		rt := resultType(c)
		ft := rt.Underlying().(*types.Pointer).Elem()
		st := ft.Underlying().(*types.Struct)
		r := fr.newRef()
		for i := 0; i < st.NumFields(); i++ {
			if st.Field(i).Name() == "L" {
				hn := fieldHeapName(ft, i)
				hs := arrSort(SInt, U.sortOf(st.Field(i).Type()))
				fr.vc.setHeap(fr.st, hn, hs, store(fr.vc.heap(fr.st, hn, hs), r, a[0].T))
			}
		}
		return &Val{T: r, S: SInt, Typ: rt}
	}
	noop := func(fr *Frame, c *ssa.CallCommon, a []*Val, av []ssa.Value, pos token.Pos) *Val { return retNil(fr, c) }
	for _, n := range []string{"(*sync.WaitGroup).Add", "(*sync.WaitGroup).Done", "(*sync.WaitGroup).Wait", "(*sync.Once).Do"} {
		S[n] = noop
	}
	S["(*sync.Once).Do"] = func(fr *Frame, c *ssa.CallCommon, a []*Val, av []ssa.Value, pos token.Pos) *Val {
		fr.vc.note("sync.Once.Do in %s: body effects abstracted (in-module heaps havocked)", fr.fn)
		fr.havocModSet(&ModSet{All: true}, "Once.Do")
		return nil
	}
	// sync/atomic typed values: modelled as opaque (reads return arbitrary values) -- atomic-only state is not stable.
	// encoding/binary big endian
	S["(encoding/binary.bigEndian).Uint32"] = func(fr *Frame, c *ssa.CallCommon, a []*Val, av []ssa.Value, pos token.Pos) *Val {
		return fr.beRead(a[1], 4, pos, types.Typ[types.Uint32])
	}
	S["(encoding/binary.bigEndian).Uint16"] = func(fr *Frame, c *ssa.CallCommon, a []*Val, av []ssa.Value, pos token.Pos) *Val {
		return fr.beRead(a[1], 2, pos, types.Typ[types.Uint16])
	}
	S["(encoding/binary.bigEndian).Uint64"] = func(fr *Frame, c *ssa.CallCommon, a []*Val, av []ssa.Value, pos token.Pos) *Val {
		return fr.beRead(a[1], 8, pos, types.Typ[types.Uint64])
	}
	S["(encoding/binary.bigEndian).PutUint32"] = func(fr *Frame, c *ssa.CallCommon, a []*Val, av []ssa.Value, pos token.Pos) *Val {
		fr.beWrite(a[1], a[2], 4, pos)
		return nil
	}
	S["(encoding/binary.bigEndian).PutUint16"] = func(fr *Frame, c *ssa.CallCommon, a []*Val, av []ssa.Value, pos token.Pos) *Val {
		fr.beWrite(a[1], a[2], 2, pos)
		return nil
	}
	S["(encoding/binary.bigEndian).PutUint64"] = func(fr *Frame, c *ssa.CallCommon, a []*Val, av []ssa.Value, pos token.Pos) *Val {
		fr.beWrite(a[1], a[2], 8, pos)
		return nil
	}
	// error constructors: fresh non-nil error
	nonNilErr := func(fr *Frame, c *ssa.CallCommon, a []*Val, av []ssa.Value, pos token.Pos) *Val {
		v := fr.freshVal("err", resultType(c))
		fr.vc.assume(fr.reach, not(eq(sx("itag", v.T), "0")))
		fr.vc.externals[c.StaticCallee().String()+" (assumed: returns non-nil error)"] = true
		return v
	}
	for _, n := range []string{"errors.New", "fmt.Errorf", "github.com/aptpod/iscp-go/errors.New", "github.com/aptpod/iscp-go/errors.Errorf"} {
		S[n] = nonNilErr
	}
	// context constructors: non-nil context, non-nil cancel function without effect on module heaps
	ctxCtor := func(fr *Frame, c *ssa.CallCommon, a []*Val, av []ssa.Value, pos token.Pos) *Val {
		rt := resultType(c)
		v := fr.freshVal("ctx", rt)
		if len(v.Tup) == 2 {
			fr.vc.assume(fr.reach, not(eq(sx("itag", v.Tup[0].T), "0")))
			fr.vc.assume(fr.reach, not(eq(v.Tup[1].T, "0")))
			v.Tup[1].PureFn = true
		} else if v.S == SIface {
			fr.vc.assume(fr.reach, not(eq(sx("itag", v.T), "0")))
		}
		return v
	}
	for _, n := range []string{"context.WithCancel", "context.WithTimeout", "context.WithDeadline", "context.Background", "context.TODO", "context.WithValue", "context.WithCancelCause", "context.WithoutCancel"} {
		S[n] = ctxCtor
	}
	// time.Duration accessors. Seconds() is float64(sec)+float64(nsec)/1e9 in the library; it is modelled
	// as the exact real d/1e9 (floating point treated as real arithmetic, assumption A6): the zero test
	// d.Seconds()==0 <=> d==0 and the truncation uint32(d.Seconds()) == d div 1e9 agree with the float
	// result for every duration below 2^53 ns (104 days).
	S["(time.Duration).Seconds"] = func(fr *Frame, c *ssa.CallCommon, a []*Val, av []ssa.Value, pos token.Pos) *Val {
		return fr.mkVal(sx("/", sx("to_real", a[0].T), "1000000000.0"), resultType(c))
	}
	for n, k := range map[string]string{"Milliseconds": "1000000", "Microseconds": "1000", "Nanoseconds": "1"} {
		k := k
		S["(time.Duration)."+n] = func(fr *Frame, c *ssa.CallCommon, a []*Val, av []ssa.Value, pos token.Pos) *Val {
			// Go integer division truncates toward zero
			q := ite(sx(">=", a[0].T, "0"), sx("div", a[0].T, Term(k)), sx("-", sx("div", sx("-", a[0].T), Term(k))))
			return fr.mkVal(fr.vc.define("dur", SInt, q), resultType(c))
		}
	}
	// time.Time is modelled by its Unix nanosecond count only (uninterpreted time.unixnano over the
	// struct value): Unix(sec, nsec) has count sec*1e9+nsec, UTC() keeps it, UnixNano() reads it.
	unixnano := func(fr *Frame, t *Val) Term {
		fr.U().declFun("time.unixnano", fmt.Sprintf("(declare-fun time.unixnano (%s) Int)", t.S))
		return sx("time.unixnano", t.T)
	}
	S["time.Unix"] = func(fr *Frame, c *ssa.CallCommon, a []*Val, av []ssa.Value, pos token.Pos) *Val {
		r := fr.freshVal("unix", resultType(c))
		fr.vc.assume(fr.reach, eq(unixnano(fr, r), sx("+", sx("*", a[0].T, "1000000000"), a[1].T)))
		return r
	}
	S["(time.Time).UTC"] = func(fr *Frame, c *ssa.CallCommon, a []*Val, av []ssa.Value, pos token.Pos) *Val {
		r := fr.freshVal("utc", resultType(c))
		fr.vc.assume(fr.reach, eq(unixnano(fr, r), unixnano(fr, a[0])))
		return r
	}
	S["(time.Time).UnixNano"] = func(fr *Frame, c *ssa.CallCommon, a []*Val, av []ssa.Value, pos token.Pos) *Val {
		return fr.mkVal(fr.vc.define("unixnano", SInt, unixnano(fr, a[0])), resultType(c))
	}
	S["time.Now"] = func(fr *Frame, c *ssa.CallCommon, a []*Val, av []ssa.Value, pos token.Pos) *Val {
		return fr.freshVal("now", resultType(c))
	}
	S["(time.Time).Add"] = func(fr *Frame, c *ssa.CallCommon, a []*Val, av []ssa.Value, pos token.Pos) *Val {
		fr.U().declFun("time.add", fmt.Sprintf("(declare-fun time.add (%s Int) %s)", a[0].S, a[0].S))
		return fr.mkVal(sx("time.add", a[0].T, a[1].T), resultType(c))
	}
	S["(time.Time).After"] = func(fr *Frame, c *ssa.CallCommon, a []*Val, av []ssa.Value, pos token.Pos) *Val {
		fr.U().declFun("time.after", fmt.Sprintf("(declare-fun time.after (%s %s) Bool)", a[0].S, a[0].S))
		return fr.mkVal(sx("time.after", a[0].T, a[1].T), resultType(c))
	}
	S["(time.Time).Before"] = func(fr *Frame, c *ssa.CallCommon, a []*Val, av []ssa.Value, pos token.Pos) *Val {
		fr.U().declFun("time.after", fmt.Sprintf("(declare-fun time.after (%s %s) Bool)", a[0].S, a[0].S))
		return fr.mkVal(sx("time.after", a[1].T, a[0].T), resultType(c))
	}
	// sync/atomic on a field or cell: sequentially consistent read-modify-write of that location
	for _, w := range []struct {
		n string
		t types.Type
	}{{"Uint32", types.Typ[types.Uint32]}, {"Uint64", types.Typ[types.Uint64]}, {"Int32", types.Typ[types.Int32]}, {"Int64", types.Typ[types.Int64]}} {
		w := w
		S["sync/atomic.Add"+w.n] = func(fr *Frame, c *ssa.CallCommon, a []*Val, av []ssa.Value, pos token.Pos) *Val {
			l := fr.locOf(av[0])
			old := fr.loadLoc(l)
			nv := fr.vc.define("atomic.add", SInt, wrapInt(sx("+", old.T, a[1].T), w.t)) // 64-bit: mathematical (A5), like every other 64-bit addition
			fr.storeLoc(l, nv)
			return fr.mkVal(nv, w.t)
		}
		S["sync/atomic.Load"+w.n] = func(fr *Frame, c *ssa.CallCommon, a []*Val, av []ssa.Value, pos token.Pos) *Val {
			return fr.loadLoc(fr.locOf(av[0]))
		}
		S["sync/atomic.Store"+w.n] = func(fr *Frame, c *ssa.CallCommon, a []*Val, av []ssa.Value, pos token.Pos) *Val {
			fr.storeLoc(fr.locOf(av[0]), a[1].T)
			return nil
		}
		S["sync/atomic.Swap"+w.n] = func(fr *Frame, c *ssa.CallCommon, a []*Val, av []ssa.Value, pos token.Pos) *Val {
			l := fr.locOf(av[0])
			old := fr.loadLoc(l)
			fr.storeLoc(l, a[1].T)
			return old
		}
		S["sync/atomic.CompareAndSwap"+w.n] = func(fr *Frame, c *ssa.CallCommon, a []*Val, av []ssa.Value, pos token.Pos) *Val {
			l := fr.locOf(av[0])
			old := fr.loadLoc(l)
			ok := fr.vc.define("cas.ok", SBool, eq(old.T, a[1].T))
			fr.storeLoc(l, ite(ok, a[2].T, old.T))
			return fr.mkVal(ok, types.Typ[types.Bool])
		}
	}
	// strings / pure helpers returning values: pure frame default suffices.

	I := externInvoke
	I["(sync.Locker).Lock"] = func(fr *Frame, c *ssa.CallCommon, recv *Val, a []*Val, pos token.Pos) *Val {
		fr.curLockArg = c.Value // `cond.L.Lock()`: anchors `lock L` / `unlock L`
		fr.doLock(sx("ival", recv.T), pos)
		return nil
	}
	I["(sync.Locker).Unlock"] = func(fr *Frame, c *ssa.CallCommon, recv *Val, a []*Val, pos token.Pos) *Val {
		fr.curLockArg = c.Value
		fr.doUnlock(sx("ival", recv.T), pos)
		return nil
	}
	I["(error).Error"] = func(fr *Frame, c *ssa.CallCommon, recv *Val, a []*Val, pos token.Pos) *Val {
		fr.safety("nil", "invoke Error", pos, not(eq(sx("itag", recv.T), "0")))
		return fr.freshVal("errstr", resultType(c))
	}
	// context.Context: pure observers
	for _, m := range []string{"Done", "Err", "Value", "Deadline"} {
		m := m
		I["(context.Context)."+m] = func(fr *Frame, c *ssa.CallCommon, recv *Val, a []*Val, pos token.Pos) *Val {
			fr.safety("nil", "invoke "+m, pos, not(eq(sx("itag", recv.T), "0")))
			return fr.ctxObserver(m, recv, c)
		}
	}
}

const ctxDoneHeap = "$CD"

var ctxDoneSort = arrSort(SIface, SBool)

// Contexts (DESIGN.md 5.5): $CD is the set of contexts this goroutine has observed to be
// done. A successful receive from ctx.Done() adds ctx; ctx.Err() is non-nil for members
// and a non-nil result adds ctx. Done-ness is monotone, so the set only grows.
func (fr *Frame) ctxObserver(m string, recv *Val, c *ssa.CallCommon) *Val {
	rt := resultType(c)
	vc := fr.vc
	switch m {
	case "Done":
		fr.U().declFun("ctx.done.ch", "(declare-fun ctx.done.ch (Iface) Int)")
		return fr.mkVal(sx("ctx.done.ch", recv.T), rt)
	case "Err":
		v := fr.freshVal("ctx.Err", rt)
		cd := vc.heap(fr.st, ctxDoneHeap, ctxDoneSort)
		vc.assume(fr.reach, imp(sel(cd, recv.T), not(eq(v.T, "(mkI 0 0)"))))
		vc.setHeap(fr.st, ctxDoneHeap, ctxDoneSort, ite(and(fr.reach, not(eq(v.T, "(mkI 0 0)"))), store(cd, recv.T, "true"), cd))
		return v
	}
	return fr.freshVal("ctx."+m, rt)
}

// ctxOfDoneChan returns the context term when ch is syntactically ctx.Done().
func (fr *Frame) ctxOfDoneChan(ch *Val) (Term, bool) {
	t := ch.T
	if d, ok := fr.vc.defs[t]; ok {
		t = d
	}
	if strings.HasPrefix(t, "(ctx.done.ch ") {
		return strings.TrimSuffix(strings.TrimPrefix(t, "(ctx.done.ch "), ")"), true
	}
	return "", false
}

// wrapInt64 is wrapInt with exact 64-bit wrap-around (used for atomic counters).
func wrapInt64(v Term, t types.Type) Term {
	b := t.Underlying().(*types.Basic)
	bits, signed := intBits(b)
	if bits <= 32 {
		return wrapInt(v, t)
	}
	if !signed {
		return sx("mod", v, "18446744073709551616")
	}
	return v
}

// beRead models binary.BigEndian.UintN(b): bounds check + value as a function of the bytes.
func (fr *Frame) beRead(b *Val, n int, pos token.Pos, rt types.Type) *Val {
	vc := fr.vc
	fr.safety("bounds", fmt.Sprintf("BigEndian.Uint%d", n*8), pos, sx("<=", num(int64(n)), sx("slen", b.T)))
	hn, hs := fr.U().elemHeapT(types.Typ[types.Uint8])
	row := sel(vc.heap(fr.st, hn, hs), sx("sarr", b.T))
	var t Term = "0"
	for j := 0; j < n; j++ {
		byt := sel(row, sx("+", sx("soff", b.T), num(int64(j))))
		vc.assume(fr.reach, and(sx("<=", "0", byt), sx("<=", byt, "255")))
		if j == 0 {
			t = byt
		} else {
			t = sx("+", sx("*", t, "256"), byt)
		}
	}
	v := fr.mkVal(vc.define("be", SInt, t), rt)
	return v
}

func (fr *Frame) beWrite(b, v *Val, n int, pos token.Pos) {
	vc := fr.vc
	fr.safety("bounds", fmt.Sprintf("BigEndian.PutUint%d", n*8), pos, sx("<=", num(int64(n)), sx("slen", b.T)))
	hn, hs := fr.U().elemHeapT(types.Typ[types.Uint8])
	fr.markDirty(hn, "")
	h := vc.heap(fr.st, hn, hs)
	row := sel(h, sx("sarr", b.T))
	for j := 0; j < n; j++ {
		shift := pow2(8 * (n - 1 - j))
		row = store(row, sx("+", sx("soff", b.T), num(int64(j))), sx("mod", sx("div", v.T, shift), "256"))
	}
	vc.setHeap(fr.st, hn, hs, store(h, sx("sarr", b.T), row))
}
