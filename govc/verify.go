package main

import (
	"os"
	"go/ast"
	"fmt"
	"go/token"
	"go/types"
	"sort"
	"strings"

	"golang.org/x/tools/go/ssa"
)

func newVC(e *Engine, fn *ssa.Function, known map[string]Sort, unmod map[string]map[string]bool) *VC {
	vc := &VC{eng: e, U: NewUniverse(), fn: fn, declared: map[string]bool{}, heapSorts: map[string]Sort{}, known: map[string]Sort{}, loopUnmod: unmod,
		loopUnmodNext: map[string]map[string]bool{}, notes: map[string]bool{}, externals: map[string]bool{}, inlined: map[string]bool{}, nameCount: map[string]int{}, defs: map[string]Term{}, faddrSeen: map[string]Term{}, unsup: map[string]bool{}, refLoops: map[Term]map[string]bool{}, mapKeys: map[string][]Term{}, heapAlloc: map[string]Term{}}
	for k, v := range known {
		vc.known[k] = v
	}
	return vc
}

// BuildVC generates the verification condition for fn (multi-pass until the
// set of heaps and the per-loop modified sets are stable).
func (e *Engine) BuildVC(fn *ssa.Function, prop string) (vc *VC, err error) {
	return e.buildVC(fn, prop, false)
}

// BuildVCAlt: the same with the alternative loop invariant sets (`loop N altinvariant`) of fn's
// contract in place of the primary ones. Either set is a complete inductive argument; the
// alternative is tried only when the primary one leaves an obligation open (main.go).
func (e *Engine) BuildVCAlt(fn *ssa.Function, prop string) (vc *VC, err error) {
	return e.buildVC(fn, prop, true)
}

// BuildVCShift: the same with the loop invariants of the contract applied to the loops d positions
// further down (d > 0: d loops were inserted before them) or up. Which loop an invariant set belongs
// to is part of the proof, not of the claim: any assignment under which every obligation of the
// function is discharged is a proof of the same contract. Tried only when the ordinals as written
// leave an obligation open (main.go).
func (e *Engine) BuildVCShift(fn *ssa.Function, prop string, d int) (vc *VC, err error) {
	return e.buildVCx(fn, prop, false, d)
}

func (e *Engine) buildVC(fn *ssa.Function, prop string, alt bool) (vc *VC, err error) {
	return e.buildVCx(fn, prop, alt, 0)
}

func (e *Engine) buildVCx(fn *ssa.Function, prop string, alt bool, shift int) (vc *VC, err error) {
	defer func() {
		if r := recover(); r != nil {
			err = fmt.Errorf("VC generation for %s failed: %v", fn, r)
		}
	}()
	known := map[string]Sort{}
	unmod := map[string]map[string]bool{}
	for pass := 0; pass < 8; pass++ {
		vc = newVC(e, fn, known, unmod)
		vc.prop = prop
		vc.altLoops = alt
		vc.loopShift = shift
		vc.noSafety = e.sweepMode
		vc.runTop()
		stable := len(vc.known) == len(known)
		if stable {
			for k, um := range vc.loopUnmodNext {
				old := unmod[k]
				if len(old) != len(um) {
					stable = false
					break
				}
				for n := range um {
					if !old[n] {
						stable = false
					}
				}
			}
			if len(vc.loopUnmodNext) != len(unmod) {
				stable = false
			}
		}
		known = vc.known
		unmod = vc.loopUnmodNext
		if stable {
			return vc, nil
		}
	}
	vc.note("heap/loop analysis did not stabilise")
	return vc, nil
}

func (vc *VC) safetyProps(kind string) []string {
	fc := vc.eng.contractOf(vc.fn)
	if fc == nil {
		return nil
	}
	var out []string
	if fc.NoPanic {
		out = append(out, fc.NoPanicProps...)
	}
	for _, p := range fc.NoPanicKinds[kind] {
		dup := false
		for _, q := range out {
			dup = dup || p == q
		}
		if !dup {
			out = append(out, p)
		}
	}
	return out
}

func (vc *VC) lockProps() []string {
	out := []string{"C08"}
	if fc := vc.eng.contractOf(vc.fn); fc != nil {
		out = append(out, fc.LockProps...)
	}
	return out
}

func (vc *VC) specError(fr *Frame, c *Clause, err error) {
	vc.obls = append(vc.obls, &Obl{Name: vc.uniq(fmt.Sprintf("%s/unresolved@%s:%d", relFuncName(fr.fn), shortFile(c.File), c.Line)), Kind: "unresolved", Func: vc.fn.String(),
		Props: c.Props, Goal: "true", CmdIdx: len(vc.cmds), Src: c.Text + "  -- " + err.Error(), Status: "unresolved"})
}

func shortFile(f string) string {
	if i := strings.LastIndex(f, "/"); i >= 0 {
		return f[i+1:]
	}
	return f
}

func (vc *VC) runTop() {
	e := vc.eng
	fn := vc.fn
	fc := e.contractOf(fn)
	fr := &Frame{vc: vc, fn: fn, key: "top", vals: map[ssa.Value]*Val{}, contr: fc, top: true, reach: "true"}
	fr.st = &State{heaps: map[string]Term{}}
	// parameters
	fr.params = map[string]*Val{}
	for _, p := range fn.Params {
		v := fr.freshVal("p."+p.Name(), p.Type())
		fr.vals[p] = v
		fr.params[p.Name()] = v
	}
	for _, fv := range fn.FreeVars {
		v := fr.freshVal("fv."+fv.Name(), fv.Type())
		fr.vals[fv] = v
		fr.params[fv.Name()] = v
		if _, ok := fv.Type().Underlying().(*types.Pointer); ok {
			vc.assume("true", not(eq(v.T, "0"))) // a captured variable is a live cell
		}
	}
	fr.entry = fr.st.clone()
	env := fr.specEnvEntry()
	// receiver non-nil by default
	if fn.Signature.Recv() != nil && len(fn.Params) > 0 {
		if _, ok := fn.Params[0].Type().Underlying().(*types.Pointer); ok {
			vc.assume("true", not(eq(fr.vals[fn.Params[0]].T, "0")))
		}
	}
	// entry lock state: nothing held except what `requires held(x)` / `requires rheld(x)` state
	{
		lw := "((as const (Array Int Int)) 0)"
		lr := lw
		if fc != nil {
			for _, c := range fc.Requires {
				if call, ok := c.Expr.(*ast.CallExpr); ok {
					if id, ok := call.Fun.(*ast.Ident); ok && (id.Name == "held" || id.Name == "rheld") && len(call.Args) == 1 {
						if mu, err := env.eval(call.Args[0]); err == nil {
							lid := mu.T
							if mu.S == SIface {
								lid = sx("ival", mu.T)
							}
							if id.Name == "held" {
								lw = store(lw, lid, "1")
							} else {
								lr = store(lr, lid, "1")
							}
						}
					}
				}
			}
		}
		vc.setHeap(fr.st, lockW, lockSort, lw)
		vc.setHeap(fr.st, lockR, lockSort, lr)
		vc.setHeap(fr.st, lockRel, lockSort, "((as const (Array Int Int)) 0)")
		fr.entry = fr.st.clone()
		env = fr.specEnvEntry()
	}
	vc.assumePackageFacts(fr, env)
	for _, p := range fn.Params {
		for _, c := range vc.typeAssumesFor(p.Type()) {
			t, err := fr.evalSpecAssume(c.Expr, env.bind("self", fr.vals[p]))
			if err != nil {
				vc.specError(fr, c, err)
				continue
			}
			vc.assume("true", imp(not(eq(fr.vals[p].T, "0")), t))
			vc.globalsUsed = append(vc.globalsUsed, "typeassume "+types.TypeString(p.Type(), nil)+": "+c.Text)
		}
	}
	// type invariants of pointer params
	for _, p := range fn.Params {
		for _, c := range vc.typeInvsFor(p.Type()) {
			t, err := fr.evalSpecAssume(c.Expr, env.bind("self", fr.vals[p]))
			if err != nil {
				vc.specError(fr, c, err)
				continue
			}
			vc.assume("true", t)
		}
	}
	if fc != nil {
		for _, c := range fc.Requires {
			t, err := fr.evalSpecAssume(c.Expr, env)
			if err != nil {
				vc.specError(fr, c, err)
				continue
			}
			vc.assume("true", t)
		}
	}
	vc.cover(relFuncName(fn)+"/cover.pre", fr.pos(fn.Pos()), "true", vc.allProps(fc))
	fr.initGhostVars()
	fr.entry = fr.st.clone()
	fr.run("true", fr.st)
	if len(fr.rets) == 0 {
		vc.note("no return reachable in %s", fn)
		return
	}
	var cs []Term
	var sts []*State
	for _, r := range fr.rets {
		cs = append(cs, r.reach)
		sts = append(sts, r.st)
	}
	exitSt := vc.mergeStates(cs, sts)
	exitReach := vc.define("reach.exit", SBool, or(cs...))
	fr.st = exitSt
	fr.reach = exitReach
	var results []*Val
	sig := fn.Signature
	for k := 0; k < sig.Results().Len(); k++ {
		var vs []*Val
		for _, r := range fr.rets {
			vs = append(vs, r.vals[k])
		}
		results = append(results, fr.mergeVals(fmt.Sprintf("result%d", k), cs, vs, sig.Results().At(k).Type()))
	}
	vc.cover(relFuncName(fn)+"/cover.return", fr.pos(fn.Pos()), exitReach, vc.allProps(fc))
	// lock balance
	if fc == nil || (len(fc.Acquires) == 0 && len(fc.Releases) == 0) {
		fr.lockBalanceAt(fr.entry, "return", fr.pos(fn.Pos()))
	}
	if fc == nil {
		return
	}
	if fc.RecoverGuard {
		ok, why := recoverGuardOK(e, fn)
		goal := "false"
		if !ok {
			goal = "true"
		}
		vc.obls = append(vc.obls, &Obl{Name: vc.uniq(relFuncName(fn) + "/recover-guard"), Kind: "recover-guard", Func: fn.String(), Pos: fr.pos(fn.Pos()), Props: fc.RecoverGuardProps,
			Goal: goal, CmdIdx: len(vc.cmds), Src: "first deferred call is a recovering closure (contract `recovers`) and no call precedes it: " + why})
	}
	penv := fr.specEnvExit(results)
	for i, c := range fc.Ensures {
		if c.Kind == "trustedensures" {
			vc.externals["trusted postcondition of "+relFuncName(fn)+" (assumed at its call sites, not proved): "+c.Text] = true
			continue
		}
		t, err := fr.evalSpecBool(c.Expr, penv)
		if err != nil {
			vc.specError(fr, c, err)
			continue
		}
		vc.oblige("post", fmt.Sprintf("%s/post#%d", relFuncName(fn), i+1), fr.pos(fn.Pos()), c.Text, exitReach, t, c.Props)
	}
	// type invariants re-established for pointer receiver
	if fn.Signature.Recv() != nil && len(fn.Params) > 0 {
		for i, c := range vc.typeInvsFor(fn.Params[0].Type()) {
			t, err := fr.evalSpecBool(c.Expr, penv.bind("self", fr.vals[fn.Params[0]]))
			if err != nil {
				vc.specError(fr, c, err)
				continue
			}
			vc.oblige("typeinv", fmt.Sprintf("%s/typeinv#%d", relFuncName(fn), i+1), fr.pos(fn.Pos()), c.Text, exitReach, t, c.Props)
		}
	}
	if fc.HasModifies {
		vc.frameObligations(fr, fc, penv, exitReach)
	}
	// vacuity guard: an anchored assertion or ghost update that matched no program point states nothing
	var un []string
	for a, cs := range fc.Asserts {
		if !vc.anchorHit[fc.Key+"|assert|"+a] {
			for _, c := range cs {
				if c.Kind != "forbid" {
					vc.specError(fr, c, fmt.Errorf("anchor `%s` matches no program point of %s", a, relFuncName(fn)))
				}
			}
			un = append(un, a)
		}
	}
	for _, u := range fc.Afters {
		if !vc.anchorHit[fc.Key+"|after|"+u.Anchor] {
			vc.specError(fr, u.Expr, fmt.Errorf("anchor `after %s` matches no program point of %s", u.Anchor, relFuncName(fn)))
		}
	}
	_ = un
}

// recoverGuardOK checks structurally that fn installs a recovering deferred closure before
// anything that can panic: in the entry block, before the first call/go/send/panic, there is a
// Defer of a closure whose contract says `recovers`, and the function has named results.
func recoverGuardOK(e *Engine, fn *ssa.Function) (bool, string) {
	cf, _, why := firstDeferred(fn)
	if cf == nil {
		return false, why
	}
	fc := e.contractOf(cf)
	if fc == nil || !fc.Recovers {
		return false, "the deferred function " + relFuncName(cf) + " has no `recovers` contract and none can be implied (it must capture, or be handed the address of, the named error result)"
	}
	if fn.Recover == nil {
		return false, "function has no recover block (named results required)"
	}
	return true, "ok: " + relFuncName(cf)
}

func (vc *VC) allProps(fc *FuncContract) []string {
	if fc == nil {
		return nil
	}
	m := map[string]bool{}
	for _, p := range fc.Props {
		m[p] = true
	}
	for _, p := range fc.NoPanicProps {
		m[p] = true
	}
	for _, ps := range fc.NoPanicKinds {
		for _, p := range ps {
			m[p] = true
		}
	}
	for _, c := range fc.Ensures {
		for _, p := range c.Props {
			m[p] = true
		}
	}
	var out []string
	for p := range m {
		out = append(out, p)
	}
	sort.Strings(out)
	return out
}

func (vc *VC) typeInvsFor(t types.Type) []*Clause {
	p, ok := t.Underlying().(*types.Pointer)
	if !ok {
		return nil
	}
	n := namedOf(p.Elem())
	if n == nil || n.Obj().Pkg() == nil {
		return nil
	}
	pc := vc.eng.contracts[n.Obj().Pkg().Path()]
	if pc == nil {
		return nil
	}
	return pc.TypeInvs[n.Obj().Name()]
}

func (vc *VC) typeAssumesFor(t types.Type) []*Clause {
	p, ok := t.Underlying().(*types.Pointer)
	if !ok {
		return nil
	}
	n := namedOf(p.Elem())
	if n == nil || n.Obj().Pkg() == nil {
		return nil
	}
	pc := vc.eng.contracts[n.Obj().Pkg().Path()]
	if pc == nil {
		return nil
	}
	return pc.TypeAssumes[n.Obj().Name()]
}

func (vc *VC) assumePackageFacts(fr *Frame, env *SpecEnv) {
	p := pkgOf(vc.fn)
	if p == nil {
		return
	}
	pc := vc.eng.contracts[p.Pkg.Path()]
	if pc == nil {
		return
	}
	for _, c := range append(append([]*Clause{}, pc.Globals...), pc.Axioms...) {
		t, err := fr.evalSpecAssume(c.Expr, env)
		if err != nil {
			vc.specError(fr, c, err)
			continue
		}
		vc.assume("true", t)
		if c.Kind == "axiom" {
			vc.axiomsUsed = append(vc.axiomsUsed, c.Text)
		} else {
			vc.globalsUsed = append(vc.globalsUsed, c.Text)
		}
	}
}

// varsIn: parameters plus captured variables (read from their cells in state st).
func (fr *Frame) varsIn(st *State) map[string]*Val {
	if len(fr.fn.FreeVars) == 0 {
		return fr.params
	}
	vars := map[string]*Val{}
	for k, v := range fr.params {
		vars[k] = v
	}
	for _, fv := range fr.fn.FreeVars {
		if cell, ok := fr.vals[fv]; ok {
			vars[fv.Name()] = fr.capturedVal(fv, cell, st)
		}
	}
	return vars
}

func (fr *Frame) specEnvEntry() *SpecEnv {
	n := 0
	return &SpecEnv{fr: fr, vars: fr.varsIn(fr.entry), cur: fr.entry, old: fr.entry, pkg: pkgOf(fr.fn), nq: &n}
}

func (fr *Frame) specEnvExit(results []*Val) *SpecEnv {
	n := 1000
	env := &SpecEnv{fr: fr, vars: fr.varsIn(fr.st), cur: fr.st, old: fr.entry, pkg: pkgOf(fr.fn), nq: &n, results: results}
	sig := fr.fn.Signature
	for i := 0; i < sig.Results().Len(); i++ {
		env.resNames = append(env.resNames, sig.Results().At(i).Name())
	}
	return env
}

func (fr *Frame) specEnvLoop(li *loopInfo) *SpecEnv {
	n := 2000 + li.ordinal*100
	var vars map[string]*Val
	if fr.params != nil {
		vars = fr.varsIn(fr.st)
	} else {
		vars = map[string]*Val{}
		for _, p := range fr.fn.Params {
			vars[p.Name()] = fr.vals[p]
		}
		for _, p := range fr.fn.FreeVars {
			if cell, ok := fr.vals[p]; ok {
				vars[p.Name()] = fr.capturedVal(p, cell, fr.st)
			}
		}
	}
	entry := fr.entry
	if entry == nil {
		entry = fr.st
	}
	return &SpecEnv{fr: fr, vars: vars, cur: fr.st, old: entry, pkg: pkgOf(fr.fn), nq: &n, li: li}
}

func (fr *Frame) loopInvariants(li *loopInfo) []*Clause {
	fc := fr.contr
	if fc == nil {
		fc = fr.vc.eng.contractOf(fr.fn)
	}
	if fc == nil {
		return nil
	}
	if fr.vc.altLoops && fr.top {
		if a := fc.AltLoops[li.ordinal]; len(a) > 0 {
			return a
		}
	}
	if fr.top && fr.vc.loopShift != 0 {
		k := li.ordinal - fr.vc.loopShift
		if len(fc.Loops[k]) > 0 {
			if fr.vc.loopSetsUsed == nil {
				fr.vc.loopSetsUsed = map[int]bool{}
			}
			fr.vc.loopSetsUsed[k] = true
		}
		return fc.Loops[k]
	}
	return fc.Loops[li.ordinal]
}

// loopLocal resolves a local variable name at a loop head.
func (fr *Frame) loopLocal(li *loopInfo, name string, st *State) *Val {
	for _, in := range li.head.Instrs {
		phi, ok := in.(*ssa.Phi)
		if !ok {
			break
		}
		if phi.Comment == name {
			if v, ok := fr.vals[phi]; ok {
				return v
			}
		}
	}
	return fr.localByNameDom(name, li.head, st)
}

// spilledParam: the current content of the cell go/ssa spills parameter `name` into (nil when the
// parameter is never assigned to, or the cell has not been initialised on this path yet).
func (fr *Frame) spilledParam(name string, st *State) *Val {
	for _, p := range fr.fn.Params {
		if p.Name() != name {
			continue
		}
		refs := p.Referrers()
		if refs == nil {
			return nil
		}
		for _, r := range *refs {
			if stt, ok := r.(*ssa.Store); ok && stt.Val == p {
				if a, ok := stt.Addr.(*ssa.Alloc); ok {
					if _, done := fr.vals[a]; !done {
						return nil
					}
					saved := fr.st
					fr.st = st
					defer func() { fr.st = saved }()
					l := fr.locOf(a)
					if l == nil {
						return nil
					}
					if l.kind == "struct" {
						return &Val{T: l.idx, S: SInt, Typ: l.typ, Addr: true}
					}
					return fr.loadLoc(l)
				}
			}
		}
	}
	return nil
}

func (fr *Frame) localByName(name string, st *State) *Val {
	return fr.localByNameDom(name, nil, st)
}

func (fr *Frame) localByNameDom(name string, at *ssa.BasicBlock, st *State) *Val {
	var best *ssa.DebugRef
	if os.Getenv("GOVC_DBG_LOCAL") == name {
		fmt.Fprintf(os.Stderr, "DBG localByNameDom %s at=%v fn=%s\n", name, at, fr.fn)
		for _, b := range fr.fn.Blocks {
			for _, in := range b.Instrs {
				if d, ok := in.(*ssa.DebugRef); ok {
					if id, ok := d.Expr.(*ast.Ident); ok && id.Name == name {
						_, has := fr.vals[d.X]
						fmt.Fprintf(os.Stderr, "   block %d dom=%v X=%s(%T) hasval=%v\n", b.Index, at == nil || b.Dominates(at), d.X.Name(), d.X, has)
					}
				}
			}
		}
	}
	for _, b := range fr.fn.Blocks {
		if at != nil && !(b.Dominates(at)) {
			continue
		}
		for _, in := range b.Instrs {
			d, ok := in.(*ssa.DebugRef)
			if !ok {
				continue
			}
			id, ok := d.Expr.(*ast.Ident)
			if !ok || id.Name != name {
				continue
			}
			if _, ok := fr.vals[d.X]; !ok {
				if _, isAlloc := d.X.(*ssa.Alloc); !isAlloc {
					continue
				}
			}
			best = d
		}
	}
	if best == nil {
		// no declaration-site DebugRef with a value dominates the point (go/ssa binds `x := T{}` to the
		// zero constant there): if every use of the name in the function refers to one and the same SSA
		// value, and that value is defined in a block dominating the point, the name denotes it
		var uniq ssa.Value
		for _, b := range fr.fn.Blocks {
			for _, in := range b.Instrs {
				d, ok := in.(*ssa.DebugRef)
				if !ok || d.IsAddr {
					continue
				}
				if id, ok := d.Expr.(*ast.Ident); !ok || id.Name != name {
					continue
				}
				if _, isConst := d.X.(*ssa.Const); isConst {
					continue
				}
				if uniq != nil && uniq != d.X {
					return nil
				}
				uniq = d.X
			}
		}
		if uniq == nil {
			return nil
		}
		if def, ok := uniq.(ssa.Instruction); ok && (at == nil || def.Block().Dominates(at)) {
			if v, ok := fr.vals[uniq]; ok {
				return v
			}
		}
		return nil
	}
	if best.IsAddr {
		saved := fr.st
		fr.st = st
		defer func() { fr.st = saved }()
		l := fr.locOf(best.X)
		switch l.kind {
		case "global":
			return fr.mkVal(fr.vc.heap(st, l.heap, l.hsort), l.typ)
		case "field":
			if !isStruct(l.typ) {
				return fr.mkVal(sel(fr.vc.heap(st, l.heap, l.hsort), l.idx), l.typ)
			}
		case "struct":
			return &Val{T: l.idx, S: SInt, Typ: l.typ, Addr: true}
		}
		return nil
	}
	return fr.vals[best.X]
}

func (fr *Frame) loopVisHeap(li *loopInfo) (string, Sort) {
	for b := range li.blocks {
		for _, in := range b.Instrs {
			if n, ok := in.(*ssa.Next); ok && !n.IsString {
				rng := n.Iter.(*ssa.Range)
				if name, ok := fr.rangeVis[rng]; ok && b == li.head {
					return name, fr.mapHeaps(rng.X.Type()).ks
				}
			}
		}
	}
	return "", ""
}

// ---------------------------------------------------------------- contract calls

func (fr *Frame) contractCall(fc *FuncContract, callee *ssa.Function, args []*Val, rt types.Type, pos token.Pos, name string) *Val {
	vc := fr.vc
	vars := map[string]*Val{}
	var cpkg *ssa.Package
	if callee != nil {
		for i, p := range callee.Params {
			if i < len(args) {
				vars[p.Name()] = args[i]
			}
		}
		if fr.curFv != nil {
			for i, f := range callee.FreeVars {
				if i < len(fr.curFv.Binds) {
					vars[f.Name()] = fr.capturedVal(f, fr.curFv.Binds[i], fr.st)
				}
			}
		}
		fr.curFv = nil
		cpkg = pkgOf(callee)
	} else {
		// interface method: self + positional names a0..an
		vars["self"] = args[0]
		for i, a := range args[1:] {
			vars[fmt.Sprintf("a%d", i)] = a
		}
		cpkg = vc.eng.spkgs[fc.PkgPath]
	}
	n := 5000 + len(vc.cmds)
	if callee != nil && fn0Recv(callee) && len(args) > 0 {
		fr.interference(args[0], callee.Params[0].Type())
	}
	pre := fr.st.clone()
	env := &SpecEnv{fr: fr, vars: vars, cur: pre, old: pre, pkg: cpkg, nq: &n}
	p := fr.pos(pos)
	// vacuity guard around the call: if the call site is reachable, it must still be reachable once
	// the callee's postconditions have been assumed (a postcondition that contradicts what the caller
	// knows - e.g. because the computed mod-set misses a location the callee writes - would make
	// everything after the call vacuously true)
	var coverBefore *Obl
	if vc.lemma == nil && os.Getenv("GOVC_NOCALLCOVER") == "" {
		coverBefore = vc.coverRel(fmt.Sprintf("%s/cover.call.before@%s#%s", relFuncName(vc.fn), name, hash4(vc.eng.srcLine(p))), p, fr.reach, nil)
	}
	for i, c := range fc.Requires {
		t, err := fr.evalSpecBool(c.Expr, env)
		if err != nil {
			vc.specError(fr, c, err)
			continue
		}
		src := vc.eng.srcLine(p)
		vc.oblige("pre", fmt.Sprintf("%s/pre#%d@%s#%s", relFuncName(vc.fn), i+1, name, hash4(src)), p, c.Text, fr.reach, t, vc.callerProps(c))
	}
	// type invariants of pointer args are required
	if callee != nil {
		for i, prm := range callee.Params {
			if i >= len(args) {
				break
			}
			for k, c := range vc.typeInvsFor(prm.Type()) {
				t, err := fr.evalSpecBool(c.Expr, env.bind("self", args[i]))
				if err != nil {
					continue
				}
				src := vc.eng.srcLine(p)
				vc.oblige("pre", fmt.Sprintf("%s/pre.typeinv#%d@%s#%s", relFuncName(vc.fn), k+1, name, hash4(src)), p, c.Text, fr.reach, imp(not(eq(args[i].T, "0")), t), vc.callerProps(c))
			}
		}
	}
	// havoc
	if fc.HasModifies {
		fr.havocModifies(fc, env, callee)
	} else if callee != nil {
		fr.havocModSet(vc.eng.modSetOf(callee), name)
	} else if fr.ifaceModSet != nil {
		fr.havocModSet(fr.ifaceModSet, name)
		fr.ifaceModSet = nil
	} else {
		fr.havocModSet(&ModSet{All: true}, name)
	}
	// lock effects
	for _, c := range fc.Acquires {
		v, err := env.eval(c.Expr)
		if err == nil {
			fr.doLock(v.T, pos)
		}
	}
	for _, c := range fc.Releases {
		v, err := env.eval(c.Expr)
		if err == nil {
			fr.doUnlock(v.T, pos)
		}
	}
	var res *Val
	var results []*Val
	if rt != nil {
		res = fr.freshVal("res."+sanitize(name), rt)
		if len(res.Tup) > 0 {
			results = res.Tup
		} else {
			results = []*Val{res}
		}
	}
	if len(fc.GhostVars) > 0 {
		// the callee's ghost variables are not observable by the caller: arbitrary values
		nv := map[string]*Val{}
		for k, v := range vars {
			nv[k] = v
		}
		genv := &SpecEnv{fr: fr, vars: vars, cur: fr.st, old: pre, pkg: cpkg, nq: &n}
		for _, g := range fc.GhostVars {
			if te, err := parserParseExpr(g.Type); err == nil {
				if t, err := genv.resolveType(te); err == nil && t != nil {
					nv[g.Name] = fr.freshVal("callee.ghost."+g.Name, t)
				}
			}
		}
		vars = nv
	}
	penv := &SpecEnv{fr: fr, vars: vars, cur: fr.st, old: pre, pkg: cpkg, nq: &n, results: results}
	if callee != nil {
		sig := callee.Signature
		for i := 0; i < sig.Results().Len(); i++ {
			penv.resNames = append(penv.resNames, sig.Results().At(i).Name())
		}
	}
	for _, c := range fc.Ensures {
		if fc.Recovers {
			// the contract of a recovering deferred function describes the panicking case (recover()
			// yields a non-nil value); when it runs on a normal return nothing of it may be assumed
			break
		}
		t, err := fr.evalSpecAssume(c.Expr, penv)
		if err != nil {
			vc.specError(fr, c, err)
			continue
		}
		vc.assume(fr.reach, t)
		if c.Kind == "trustedensures" {
			vc.externals["trusted postcondition of "+name+" (assumed, not proved): "+c.Text] = true
		}
	}
	if callee != nil && fn0Recv(callee) {
		for _, c := range vc.typeInvsFor(callee.Params[0].Type()) {
			t, err := fr.evalSpecAssume(c.Expr, penv.bind("self", args[0]))
			if err == nil {
				vc.assume(fr.reach, t)
			}
		}
	}
	if fc.Trusted {
		vc.externals["trusted contract "+name] = true
	}
	if vc.usedContracts == nil {
		vc.usedContracts = map[string]*FuncContract{}
	}
	vc.usedContracts[fc.PkgPath+" "+fc.Key] = fc
	if coverBefore != nil {
		vc.coverRel(fmt.Sprintf("%s/cover.call.after@%s#%s", relFuncName(vc.fn), name, hash4(vc.eng.srcLine(p))), p, fr.reach, coverBefore)
	}
	return res
}

func fn0Recv(f *ssa.Function) bool {
	return f.Signature.Recv() != nil && len(f.Params) > 0
}

// callerProps: a precondition obligation at a call site is claimed under the caller's
// function-level props (a caller that tags only individual clauses does not claim them).
func (vc *VC) callerProps(c *Clause) []string {
	if c.Explicit && c.Kind == "requires" {
		// `requires[Cxx]`: the precondition supports only Cxx; call sites owe it only under Cxx
		return c.Props
	}
	var ps []string
	if fc := vc.eng.contractOf(vc.fn); fc != nil {
		ps = fc.Props
	} else {
		ps = c.Props
	}
	if isLockPrecondition(c) {
		// "call me with the lock held" is part of the lock discipline: every call site owes it under C09
		ps = append(append([]string{}, ps...), "C09")
	}
	return ps
}

// isLockPrecondition: the clause is `held(x)` / `rheld(x)` (possibly a conjunction of such).
func isLockPrecondition(c *Clause) bool {
	if c == nil || c.Kind != "requires" {
		return false
	}
	var ok func(e ast.Expr) bool
	ok = func(e ast.Expr) bool {
		switch x := e.(type) {
		case *ast.ParenExpr:
			return ok(x.X)
		case *ast.BinaryExpr:
			return x.Op == token.LAND && ok(x.X) && ok(x.Y)
		case *ast.CallExpr:
			if id, isId := x.Fun.(*ast.Ident); isId {
				return id.Name == "held" || id.Name == "rheld"
			}
		}
		return false
	}
	return ok(c.Expr)
}

// modTarget is a resolved `modifies` entry.
type modTarget struct {
	heap  string
	hsort Sort
	idx   Term // ref; "" = whole heap
}

func (fr *Frame) modTargets(fc *FuncContract, env *SpecEnv) []modTarget {
	U := fr.U()
	var out []modTarget
	for _, c := range fc.Modifies {
		// forms: x.f (field of ref), mapof(e), elems(e), global name, *p
		e := c.Expr
		if call, ok := e.(*ast.CallExpr); ok {
			if id, ok := call.Fun.(*ast.Ident); ok && len(call.Args) == 1 {
				v, err := env.eval(call.Args[0])
				if err != nil {
					fr.vc.specError(fr, c, err)
					continue
				}
				switch id.Name {
				case "mapof":
					mh := fr.mapHeaps(v.Typ)
					out = append(out, modTarget{mh.dom, mh.domS, v.T}, modTarget{mh.val, mh.valS, v.T}, modTarget{mh.ln, mh.lnS, v.T})
					continue
				case "elems":
					hn, hs := U.elemHeapT(v.Typ.Underlying().(*types.Slice).Elem())
					out = append(out, modTarget{hn, hs, sx("sarr", v.T)})
					continue
				case "allfields":
					// every field of the struct pointed to
					T := v.Typ
					if p, ok := T.Underlying().(*types.Pointer); ok && !v.Addr {
						T = p.Elem()
					}
					fr.allFieldTargets(T, v.T, &out)
					continue
				case "anyof":
					// anyof(T.f): the whole field heap
				}
			}
		}
		if sel, ok := e.(*ast.SelectorExpr); ok {
			base, err := env.eval(sel.X)
			if err != nil {
				fr.vc.specError(fr, c, err)
				continue
			}
			T := base.Typ
			if p, ok := T.Underlying().(*types.Pointer); ok && !base.Addr {
				T = p.Elem()
			}
			obj, index, _ := types.LookupFieldOrMethod(types.NewPointer(T), true, namedOf(T).Obj().Pkg(), sel.Sel.Name)
			if obj == nil {
				fr.vc.specError(fr, c, fmt.Errorf("modifies: no field %s", sel.Sel.Name))
				continue
			}
			cur := base
			for k, i := range index {
				if k == len(index)-1 {
					CT := cur.Typ
					if p, ok := CT.Underlying().(*types.Pointer); ok && !cur.Addr {
						CT = p.Elem()
					}
					ft := CT.Underlying().(*types.Struct).Field(i).Type()
					if isStruct(ft) {
						nx, _ := env.fieldStep(cur, i)
						fr.allFieldTargets(ft, nx.T, &out)
					} else {
						out = append(out, modTarget{fieldHeapName(CT, i), arrSort(SInt, U.sortOf(ft)), cur.T})
					}
				} else {
					cur, _ = env.fieldStep(cur, i)
				}
			}
			continue
		}
		if st, ok := e.(*ast.StarExpr); ok {
			p, err := env.eval(st.X)
			if err == nil {
				phn, phs := U.ptrHeapT(deref(p.Typ))
				out = append(out, modTarget{phn, phs, p.T})
				continue
			}
		}
		if id, ok := e.(*ast.Ident); ok && env.pkg != nil {
			if o, ok := env.pkg.Pkg.Scope().Lookup(id.Name).(*types.Var); ok {
				out = append(out, modTarget{"G|" + env.pkg.Pkg.Path() + "." + id.Name, U.sortOf(o.Type()), ""})
				continue
			}
		}
		fr.vc.specError(fr, c, fmt.Errorf("unsupported modifies target"))
	}
	return out
}

func (fr *Frame) allFieldTargets(T types.Type, ref Term, out *[]modTarget) {
	U := fr.U()
	st := T.Underlying().(*types.Struct)
	for i := 0; i < st.NumFields(); i++ {
		ft := st.Field(i).Type()
		hn := fieldHeapName(T, i)
		if isStruct(ft) {
			fr.allFieldTargets(ft, fr.vc.faddr(hn, ref), out)
		} else {
			*out = append(*out, modTarget{hn, arrSort(SInt, U.sortOf(ft)), ref})
		}
	}
}

// havocModifies: only the listed locations (and freshly allocated objects) change.
func (fr *Frame) havocModifies(fc *FuncContract, env *SpecEnv, callee *ssa.Function) {
	vc := fr.vc
	targets := fr.modTargets(fc, env)
	byHeap := map[string][]modTarget{}
	var order []string
	for _, t := range targets {
		if _, ok := byHeap[t.heap]; !ok {
			order = append(order, t.heap)
		}
		byHeap[t.heap] = append(byHeap[t.heap], t)
	}
	// heaps the callee may touch at fresh objects only: every heap in its inferred mod-set
	var ms *ModSet
	if callee != nil {
		ms = vc.eng.modSetOf(callee)
	}
	allocPre := fr.alloc()
	names := map[string]Sort{}
	if ms != nil {
		for n, s := range ms.Names {
			ms.declareIn(vc.U, n)
			names[n] = s
		}
	}
	for _, n := range order {
		names[n] = byHeap[n][0].hsort
	}
	var all []string
	for n := range names {
		all = append(all, n)
	}
	sort.Strings(all)
	for _, n := range all {
		hs := names[n]
		if strings.HasPrefix(n, "G|") {
			if _, listed := byHeap[n]; listed {
				vc.initHeap(n, hs)
				vc.havocHeap(fr.st, n)
			}
			continue
		}
		old := vc.heap(fr.st, n, hs)
		if len(byHeap[n]) > 0 {
			fr.markDirty(n, "")
		}
		var exc []Term
		whole := false
		for _, t := range byHeap[n] {
			if t.idx == "" {
				whole = true
			}
			exc = append(exc, t.idx)
		}
		if whole || !strings.HasPrefix(hs, "(Array Int ") {
			vc.havocHeap(fr.st, n)
			continue
		}
		vc.frameHeap(fr.st, n, old, allocPre, exc)
	}
	na := vc.fresh("$alloc", SInt)
	fr.st.heaps["$alloc"] = na
	vc.assume(fr.reach, sx(">=", na, allocPre))
}

// frameObligations: in the callee, everything not listed in `modifies` is unchanged
// for objects that existed at entry.
func (vc *VC) frameObligations(fr *Frame, fc *FuncContract, penv *SpecEnv, exitReach Term) {
	eenv := penv.withState(fr.entry)
	targets := fr.modTargets(fc, eenv)
	byHeap := map[string][]modTarget{}
	for _, t := range targets {
		byHeap[t.heap] = append(byHeap[t.heap], t)
	}
	alloc0 := vc.heap(fr.entry, "$alloc", SInt)
	var names []string
	for n := range fr.st.heaps {
		names = append(names, n)
	}
	sort.Strings(names)
	for _, n := range names {
		if strings.HasPrefix(n, "$") || strings.HasPrefix(n, "L|") {
			continue
		}
		hs := vc.heapSorts[n]
		cur := fr.st.heaps[n]
		old := vc.heap(fr.entry, n, hs)
		if cur == old {
			continue
		}
		if strings.HasPrefix(n, "G|") {
			if _, ok := byHeap[n]; ok {
				continue
			}
			vc.oblige("modifies", fmt.Sprintf("%s/modifies@%s", relFuncName(fr.fn), n), fr.pos(fr.fn.Pos()), "global "+n+" unchanged", exitReach, eq(cur, old), fc.Props)
			continue
		}
		whole := false
		sk := vc.fresh("frame.r", SInt)
		conds := []Term{sx("<=", sk, alloc0)}
		for _, t := range byHeap[n] {
			if t.idx == "" {
				whole = true
			}
			conds = append(conds, not(eq(sk, t.idx)))
		}
		if whole {
			continue
		}
		vc.oblige("modifies", fmt.Sprintf("%s/modifies@%s", relFuncName(fr.fn), n), fr.pos(fr.fn.Pos()), "only listed locations of "+n+" change", exitReach,
			imp(and(conds...), eq(sel(cur, sk), sel(old, sk))), fc.Props)
	}
}
