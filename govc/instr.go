package main

import (
	"os"
	"fmt"
	"go/ast"
	"go/token"
	"go/types"

	"golang.org/x/tools/go/ssa"
)

func (fr *Frame) set(v ssa.Value, x *Val) {
	if x.Typ == nil {
		x.Typ = v.Type()
	}
	fr.vals[v] = x
}

func (fr *Frame) exec(in ssa.Instruction) {
	vc := fr.vc
	U := fr.U()
	switch i := in.(type) {
	case *ssa.DebugRef:
		return
	case *ssa.Phi:
		return // handled at block entry
	case *ssa.Alloc:
		fr.execAlloc(i)
	case *ssa.UnOp:
		fr.execUnOp(i)
	case *ssa.BinOp:
		fr.set(i, fr.binop(i.Op, fr.val(i.X), fr.val(i.Y), i.Type(), i.Pos()))
	case *ssa.Store:
		fr.nilCheck(i.Addr, i.Pos(), "store")
		l := fr.locOf(i.Addr)
		fr.curAddr = i.Addr
		fr.guardAccess(l, true, i.Pos())
		fr.curAddr = nil
		if fa, ok := i.Addr.(*ssa.FieldAddr); ok {
			// anchor `write <Type.field>`: an assignment to that field (of any object of the type)
			if n := namedOf(fa.X.Type()); n != nil {
				if st, ok := n.Underlying().(*types.Struct); ok {
					fr.anchorAsserts("write", n.Obj().Name()+"."+st.Field(fa.Field).Name(), i.Pos(), map[string]*Val{"v": fr.val(i.Val), "recv": fr.val(fa.X)})
				}
			}
		}
		fr.storeLoc(l, fr.val(i.Val).T)
	case *ssa.FieldAddr:
		fr.nilCheck(i.X, i.Pos(), "fieldaddr")
		st := deref(i.X.Type())
		if fr.interiorLoc(i.X) != nil {
			fr.set(i, &Val{T: "0", S: SInt, Typ: i.Type()}) // descriptor-only
			return
		}
		frozen := fr.checkInteriorEscape(i, deref(i.Type()))
		base := fr.val(i.X)
		t := vc.faddr(fieldHeapName(st, i.Field), base.T)
		fr.set(i, &Val{T: vc.define("fa", SInt, t), S: SInt, Typ: i.Type()})
		if frozen {
			// the address of a field of a private struct that is never written again escapes (it is
			// stored or returned): from here on it is an ordinary pointer whose cell holds the field's value
			fa := fr.vals[i]
			hn, hs := U.ptrHeapT(deref(i.Type()))
			cur := fr.loadLoc(fr.locOf(i))
			vc.assume(fr.reach, and(not(eq(fa.T, "0")), eq(sel(vc.heap(fr.st, hn, hs), fa.T), cur.T)))
			vc.note("interior pointer to a field of a private, never rewritten struct treated as a cell holding the field's value in %s", relFuncName(fr.fn))
		}
	case *ssa.Field:
		x := fr.val(i.X)
		info := U.structInfo[x.S]
		if info == nil {
			vc.note("Field on non-datatype %s", x.S)
			fr.set(i, fr.freshVal("field", i.Type()))
			return
		}
		fr.set(i, fr.mkVal(vc.define("f", U.sortOf(i.Type()), sx(info.Fields[i.Field], x.T)), i.Type()))
	case *ssa.IndexAddr:
		fr.execIndexAddr(i)
	case *ssa.Index:
		fr.execIndex(i)
	case *ssa.Lookup:
		fr.execLookup(i)
	case *ssa.MapUpdate:
		fr.execMapUpdate(i)
	case *ssa.MakeMap:
		fr.set(i, fr.newMap(i.Type()))
	case *ssa.MakeSlice:
		fr.execMakeSlice(i)
	case *ssa.MakeChan:
		r := fr.newRef()
		fr.set(i, &Val{T: r, S: SInt, Typ: i.Type()})
		// the capacity is a fixed attribute of the channel (cap(ch) in contracts)
		U.declFun("chan.cap", "(declare-fun chan.cap (Int) Int)")
		vc.assume(fr.reach, eq(sx("chan.cap", r), fr.val(i.Size).T))
		fr.onMakeChan(i, r)
	case *ssa.MakeInterface:
		x := fr.val(i.X)
		fr.set(i, fr.makeIface(x, i.X.Type(), i.Type()))
	case *ssa.ChangeInterface:
		x := fr.val(i.X)
		fr.set(i, &Val{T: x.T, S: SIface, Typ: i.Type()})
	case *ssa.ChangeType:
		x := fr.val(i.X)
		nv := *x
		nv.Typ = i.Type()
		fr.set(i, &nv)
	case *ssa.Convert:
		fr.execConvert(i)
	case *ssa.SliceToArrayPointer:
		vc.note("SliceToArrayPointer unsupported in %s", fr.fn)
		fr.set(i, fr.freshVal("s2a", i.Type()))
	case *ssa.MultiConvert:
		vc.note("MultiConvert unsupported in %s", fr.fn)
		fr.set(i, fr.freshVal("mconv", i.Type()))
	case *ssa.TypeAssert:
		fr.execTypeAssert(i)
	case *ssa.Extract:
		t := fr.val(i.Tuple)
		if i.Index < len(t.Tup) {
			fr.set(i, t.Tup[i.Index])
		} else {
			vc.note("extract from non-tuple in %s", fr.fn)
			fr.set(i, fr.freshVal("extract", i.Type()))
		}
	case *ssa.Slice:
		fr.execSlice(i)
	case *ssa.MakeClosure:
		f := i.Fn.(*ssa.Function)
		if f.Synthetic != "" && len(i.Bindings) == 1 && (f.Name() == "Broadcast$bound" || f.Name() == "Signal$bound") {
			// the method value c.Broadcast handed out as a function: whoever calls it cannot take c.L
			if g := fr.condLockedDecl(i.Bindings[0]); g != nil {
				fr.condOblige(g, "method-value", i.Pos(), "false")
			}
		}
		var binds []*Val
		for _, b := range i.Bindings {
			binds = append(binds, fr.val(b))
		}
		r := fr.newRef()
		fr.set(i, &Val{T: r, S: SInt, Typ: i.Type(), Fn: f, Binds: binds})
	case *ssa.Call:
		res := fr.call(&i.Call, i, i.Pos())
		if res != nil {
			fr.set(i, res)
		}
	case *ssa.Defer:
		var args []*Val
		for _, a := range i.Call.Args {
			args = append(args, fr.val(a))
		}
		var fv *Val
		if !i.Call.IsInvoke() {
			fv = fr.val(i.Call.Value)
		} else {
			fv = fr.val(i.Call.Value)
		}
		fr.st.defers = append(fr.st.defers, &deferEntry{guard: "true", call: &i.Call, args: args, fnval: fv, instr: i, fr: fr})
	case *ssa.RunDefers:
		fr.runDefers()
	case *ssa.Go:
		fr.execGo(i)
	case *ssa.Send:
		fr.execSend(i)
	case *ssa.Select:
		fr.execSelect(i)
	case *ssa.Range:
		fr.execRange(i)
	case *ssa.Next:
		fr.execNext(i)
	case *ssa.If:
		c := fr.val(i.Cond)
		b := i.Block()
		fr.addEdge(b, b.Succs[0], and(fr.reach, c.T))
		fr.addEdge(b, b.Succs[1], and(fr.reach, not(c.T)))
	case *ssa.Jump:
		b := i.Block()
		fr.addEdge(b, b.Succs[0], fr.reach)
	case *ssa.Return:
		var vs []*Val
		for _, r := range i.Results {
			vs = append(vs, fr.val(r))
		}
		if len(fr.st.defers) > 0 {
			// a Return without preceding RunDefers only happens when there are no defers
			vc.note("return with pending defers in %s", fr.fn)
		}
		fr.rets = append(fr.rets, retPoint{reach: fr.reach, st: fr.st.clone(), vals: vs})
	case *ssa.Panic:
		fr.execPanic(i)
	default:
		vc.note("unsupported instruction %T in %s", in, fr.fn)
		if v, ok := in.(ssa.Value); ok {
			fr.set(v, fr.freshVal("unsup", v.Type()))
		}
	}
}

func (fr *Frame) execPanic(i *ssa.Panic) {
	// the blocking-select panic and explicit panics: obligation "unreachable"
	p := fr.pos(i.Pos())
	src := fr.vc.eng.srcLine(p)
	if fr.vc.noSafety {
		return
	}
	name := fmt.Sprintf("%s/panic#%s", relFuncName(fr.vc.fn), hash4(src))
	if fr.fn != fr.vc.fn {
		name = fmt.Sprintf("%s/panic@%s#%s", relFuncName(fr.vc.fn), relFuncName(fr.fn), hash4(src))
	}
	fr.vc.oblige("panic", name, p, src, fr.reach, "false", fr.vc.safetyProps("panic"))
}

func (fr *Frame) newRef() Term {
	vc := fr.vc
	a := fr.alloc()
	r := vc.define("ref", SInt, sx("+", a, "1"))
	vc.setHeap(fr.st, "$alloc", SInt, r)
	vc.refLoops[r] = fr.activeLoopKeys()
	return r
}

// activeLoopKeys: the loops (of this frame and its callers) whose body is being executed.
func (fr *Frame) activeLoopKeys() map[string]bool {
	out := map[string]bool{}
	for f := fr; f != nil; f = f.parent {
		for _, li := range f.loopHead {
			if f.curBlk != nil && li.blocks[f.curBlk] {
				out[f.loopKey(li)] = true
			}
		}
	}
	return out
}

// markDirty records that heap `name` is written at an object that may have existed when the
// enclosing loops were entered. ref is the object written ("" when unknown): objects
// allocated inside a loop body do not make that loop dirty.
func (fr *Frame) markDirty(name string, ref Term) {
	created := fr.vc.refLoops[ref]
	for f := fr; f != nil; f = f.parent {
		for _, li := range f.loopHead {
			if f.curBlk != nil && li.blocks[f.curBlk] {
				if created != nil && created[f.loopKey(li)] {
					continue
				}
				if li.dirty == nil {
					li.dirty = map[string]bool{}
				}
				li.dirty[name] = true
			}
		}
	}
}

func (fr *Frame) execAlloc(i *ssa.Alloc) {
	vc := fr.vc
	U := fr.U()
	elem := deref(i.Type())
	if !i.Heap && !isStruct(elem) && !isArray(elem) {
		// private cell
		l := fr.locOf(i)
		vc.setHeap(fr.st, l.heap, l.hsort, fr.zero(elem))
		fr.set(i, &Val{T: "0", S: SInt, Typ: i.Type()})
		return
	}
	r := fr.newRef()
	fr.set(i, &Val{T: r, S: SInt, Typ: i.Type()})
	switch et := elem.Underlying().(type) {
	case *types.Struct:
		fr.storeStruct(r, elem, fr.zero(elem))
	case *types.Array:
		es := U.sortOf(et.Elem())
		hn, hs := U.elemHeapT(et.Elem())
		h := vc.heap(fr.st, hn, hs)
		vc.setHeap(fr.st, hn, hs, store(h, r, sx("(as const "+arrSort(SInt, es)+")", fr.zero(et.Elem()))))
	default:
		hn, hs := U.ptrHeapT(elem)
		h := vc.heap(fr.st, hn, hs)
		vc.setHeap(fr.st, hn, hs, store(h, r, fr.zero(elem)))
		if i.Heap && vc.eng.privateAlloc(i) {
			if fr.cells == nil {
				fr.cells = map[*ssa.Alloc]cellInfo{}
			}
			fr.cells[i] = cellInfo{heap: hn, hsort: hs, esort: U.sortOf(elem), ref: r}
		}
	}
}

func (fr *Frame) execUnOp(i *ssa.UnOp) {
	vc := fr.vc
	switch i.Op {
	case token.MUL:
		fr.nilCheck(i.X, i.Pos(), "load")
		l := fr.locOf(i.X)
		fr.curAddr = i.X
		fr.guardAccess(l, false, i.Pos())
		fr.curAddr = nil
		// anchors `read <Type.field>` (a plain load of that field) and `load <Type>` (a plain copy of a
		// whole struct of that type through a pointer, e.g. for a value-receiver method); loads done by
		// sync/atomic are calls, not loads, and do not match
		if fa, ok := i.X.(*ssa.FieldAddr); ok {
			if n := namedOf(fa.X.Type()); n != nil {
				if st, ok := n.Underlying().(*types.Struct); ok {
					fr.anchorAsserts("read", n.Obj().Name()+"."+st.Field(fa.Field).Name(), i.Pos(), map[string]*Val{"recv": fr.val(fa.X)})
				}
			}
		}
		if n, ok := i.Type().(*types.Named); ok {
			if _, isStruct := n.Underlying().(*types.Struct); isStruct {
				fr.anchorAsserts("load", n.Obj().Name(), i.Pos(), map[string]*Val{"recv": fr.val(i.X)})
			}
		}
		v := fr.loadLoc(l)
		if g, ok := i.X.(*ssa.Global); ok && fr.vc.eng.pureGlobal(g) {
			nv := *v
			nv.PureFn = true
			v = &nv
			fr.vc.externals["package variable "+g.String()+" (assumed: non-nil, pure function)"] = true
		}
		fr.set(i, v)
	case token.NOT:
		x := fr.val(i.X)
		fr.set(i, fr.mkVal(not(x.T), i.Type()))
	case token.SUB:
		x := fr.val(i.X)
		if x.S == SReal {
			fr.set(i, fr.mkVal(sx("-", x.T), i.Type()))
			return
		}
		fr.set(i, fr.mkVal(vc.define("neg", SInt, wrapInt(sx("-", x.T), i.Type())), i.Type()))
	case token.XOR:
		x := fr.val(i.X)
		// ^x = -x-1 for signed; for unsigned max - x
		b := i.Type().Underlying().(*types.Basic)
		_, hi := intRange(b)
		if _, signed := intBits(b); signed {
			fr.set(i, fr.mkVal(sx("-", sx("-", x.T), "1"), i.Type()))
		} else {
			fr.set(i, fr.mkVal(sx("-", hi, x.T), i.Type()))
		}
	case token.ARROW:
		fr.execRecv(i)
	default:
		vc.note("unsupported unop %s", i.Op)
		fr.set(i, fr.freshVal("unop", i.Type()))
	}
}

func isFloatT(t types.Type) bool {
	b, ok := t.Underlying().(*types.Basic)
	return ok && b.Info()&(types.IsFloat|types.IsComplex) != 0
}

func (fr *Frame) binop(op token.Token, x, y *Val, rt types.Type, pos token.Pos) *Val {
	vc := fr.vc
	U := fr.U()
	xt := x.Typ
	if xt == nil {
		xt = rt
	}
	mk := func(t Term) *Val {
		v := fr.mkVal(t, rt)
		if v.S == SInt {
			v.T = vc.defineOpaque("b", v.S, v.T)
		} else {
			v.T = vc.define("b", v.S, v.T)
		}
		return v
	}
	switch op {
	case token.EQL, token.NEQ:
		var e Term
		if _, ok := xt.Underlying().(*types.Slice); ok {
			// only comparison with nil is legal
			if y.T == "(mkS 0 0 0 0)" {
				e = eq(sx("sarr", x.T), "0")
			} else {
				e = eq(sx("sarr", y.T), "0")
			}
		} else if x.S != y.S {
			vc.note("comparison of different sorts %s %s", x.S, y.S)
			e = vc.fresh("cmp", SBool)
		} else {
			e = eq(x.T, y.T)
		}
		if op == token.NEQ {
			e = not(e)
		}
		return mk(e)
	}
	if x.S == SBool {
		switch op {
		case token.AND, token.LAND:
			return mk(and(x.T, y.T))
		case token.OR, token.LOR:
			return mk(or(x.T, y.T))
		}
	}
	if x.S == SStr {
		switch op {
		case token.ADD:
			t := sx("strcat", x.T, y.T)
			v := mk(t)
			vc.assume(fr.reach, eq(sx("strlen", v.T), sx("+", sx("strlen", x.T), sx("strlen", y.T))))
			return v
		case token.LSS:
			return mk(sx("strlt", x.T, y.T))
		case token.GTR:
			return mk(sx("strlt", y.T, x.T))
		case token.LEQ:
			return mk(not(sx("strlt", y.T, x.T)))
		case token.GEQ:
			return mk(not(sx("strlt", x.T, y.T)))
		}
	}
	if isFloatT(xt) {
		// Arithmetic on floats is not exact: the result is the real result up to one rounding (relative
		// error at most 2^-52), not the real result itself. (Values read from the library - e.g.
		// Duration.Seconds() - stay the exact reals of assumption A9; what is computed from them here
		// does not.) So `uint32(d.Seconds()*1000)` is not provably `d.Milliseconds()`, which it is not.
		rounded := func(exact Term) *Val {
			if os.Getenv("GOVC_FLOAT_EXACT") != "" {
				return mk(exact)
			}
			e := vc.define("fexact", SReal, exact)
			r := fr.vc.fresh("fround", SReal)
			lo, hi := sx("*", e, "0.9999999999999997"), sx("*", e, "1.0000000000000003")
			vc.assume(fr.reach, ite(sx(">=", e, "0.0"), and(sx("<=", lo, r), sx("<=", r, hi)), and(sx("<=", hi, r), sx("<=", r, lo))))
			return mk(r)
		}
		switch op {
		case token.ADD:
			return rounded(sx("+", x.T, y.T))
		case token.SUB:
			return rounded(sx("-", x.T, y.T))
		case token.MUL:
			return rounded(sx("*", x.T, y.T))
		case token.QUO:
			return rounded(sx("/", x.T, y.T))
		case token.LSS:
			return mk(sx("<", x.T, y.T))
		case token.LEQ:
			return mk(sx("<=", x.T, y.T))
		case token.GTR:
			return mk(sx(">", x.T, y.T))
		case token.GEQ:
			return mk(sx(">=", x.T, y.T))
		}
	}
	_ = U
	switch op {
	case token.ADD:
		return mk(wrapInt(sx("+", x.T, y.T), rt))
	case token.SUB:
		return mk(wrapInt(sx("-", x.T, y.T), rt))
	case token.MUL:
		return mk(wrapInt(sx("*", x.T, y.T), rt))
	case token.QUO:
		fr.safety("divzero", "quo", pos, not(eq(y.T, "0")))
		return mk(wrapInt(sx("godiv", x.T, y.T), rt))
	case token.REM:
		fr.safety("divzero", "rem", pos, not(eq(y.T, "0")))
		return mk(sx("gomod", x.T, y.T))
	case token.LSS:
		return mk(sx("<", x.T, y.T))
	case token.LEQ:
		return mk(sx("<=", x.T, y.T))
	case token.GTR:
		return mk(sx(">", x.T, y.T))
	case token.GEQ:
		return mk(sx(">=", x.T, y.T))
	case token.SHL:
		if n, ok := smallConst(y.T); ok {
			return mk(wrapInt(sx("*", x.T, pow2(n)), rt))
		}
		v := mk(sx("bshl", x.T, y.T))
		vc.assume(fr.reach, fr.wf(v.T, rt))
		return v
	case token.SHR:
		if n, ok := smallConst(y.T); ok {
			return mk(sx("div", x.T, pow2(n)))
		}
		v := mk(sx("bshr", x.T, y.T))
		vc.assume(fr.reach, fr.wf(v.T, rt))
		return v
	case token.AND:
		if n, ok := smallConstBig(y.T); ok && isMask(n) {
			return mk(sx("mod", x.T, fmt.Sprint(n+1)))
		}
		v := mk(sx("band", x.T, y.T))
		vc.assume(fr.reach, fr.wf(v.T, rt))
		return v
	case token.OR:
		v := mk(sx("bor", x.T, y.T))
		vc.assume(fr.reach, fr.wf(v.T, rt))
		return v
	case token.XOR:
		v := mk(sx("bxor", x.T, y.T))
		vc.assume(fr.reach, fr.wf(v.T, rt))
		return v
	case token.AND_NOT:
		v := mk(sx("bandnot", x.T, y.T))
		vc.assume(fr.reach, fr.wf(v.T, rt))
		return v
	}
	vc.note("unsupported binop %s", op)
	return fr.freshVal("binop", rt)
}

func smallConst(t Term) (int, bool) {
	var n int
	if _, err := fmt.Sscanf(t, "%d", &n); err == nil && fmt.Sprint(n) == t && n >= 0 && n < 64 {
		return n, true
	}
	return 0, false
}
func smallConstBig(t Term) (int64, bool) {
	var n int64
	if _, err := fmt.Sscanf(t, "%d", &n); err == nil && fmt.Sprint(n) == t && n >= 0 {
		return n, true
	}
	return 0, false
}
func isMask(n int64) bool { return n > 0 && (n&(n+1)) == 0 }
func pow2(n int) Term {
	if n < 62 {
		return fmt.Sprint(int64(1) << uint(n))
	}
	if n == 62 {
		return "4611686018427387904"
	}
	return "9223372036854775808"
}

func (fr *Frame) execIndexAddr(i *ssa.IndexAddr) {
	switch xt := i.X.Type().Underlying().(type) {
	case *types.Slice:
		s := fr.val(i.X)
		idx := fr.val(i.Index)
		fr.safety("bounds", "index", i.Pos(), and(sx("<=", "0", idx.T), sx("<", idx.T, sx("slen", s.T))))
	case *types.Pointer:
		at := xt.Elem().Underlying().(*types.Array)
		idx := fr.val(i.Index)
		fr.nilCheck(i.X, i.Pos(), "arrayindex")
		fr.safety("bounds", "arrayindex", i.Pos(), and(sx("<=", "0", idx.T), sx("<", idx.T, num(at.Len()))))
	}
	fr.checkInteriorEscape(i, deref(i.Type()))
	fr.set(i, &Val{T: "0", S: SInt, Typ: i.Type()}) // descriptor only; resolved by locOf
}

// checkInteriorEscape: the address of a non-struct field / slice element may only be
// used for loads, stores, further addressing and sync / sync/atomic calls. Anything
// else (stored, passed, returned, captured) is outside the memory model: the function
// is reported as unsupported, never as proved.
func (fr *Frame) checkInteriorEscape(v ssa.Value, elem types.Type) (frozen bool) {
	if isStruct(elem) {
		if _, isIdx := v.(*ssa.IndexAddr); !isIdx {
			return false // struct-valued fields are flattened: their address is a genuine ref
		}
	}
	refs := v.Referrers()
	if refs == nil {
		return false
	}
	for _, r := range *refs {
		switch u := r.(type) {
		case *ssa.DebugRef:
		case *ssa.UnOp:
		case *ssa.Store:
			if u.Val == v {
				if fa, ok := v.(*ssa.FieldAddr); ok && frozenPrivateField(fa) {
					frozen = true
					continue
				}
				fr.vc.unsupported("interior pointer stored in " + relFuncName(fr.fn))
			}
		case *ssa.FieldAddr, *ssa.IndexAddr:
		case *ssa.Slice:
		case ssa.CallInstruction:
			c := u.Common()
			if callee := c.StaticCallee(); callee != nil {
				if p := callee.Pkg; p != nil && (p.Pkg.Path() == "sync" || p.Pkg.Path() == "sync/atomic") {
					continue
				}
				if callee.Signature.Recv() != nil && isStruct(elem) {
					continue
				}
			}
			fr.vc.unsupported("interior pointer passed to a call in " + relFuncName(fr.fn))
		default:
			fr.vc.unsupported(fmt.Sprintf("interior pointer escapes (%T) in %s", r, relFuncName(fr.fn)))
		}
	}
	return frozen
}

// frozenPrivateField: fa addresses a (nested) field of a struct allocated by this very function
// (a local that escapes only through such field addresses, e.g. the spilled copy of a value
// receiver) which is initialised once, as a whole, in the entry block before anything else touches
// it and never written afterwards.  Then the field's address may escape: nobody can change the
// field except through that pointer, so the pointer behaves like a cell holding the field's value.
func frozenPrivateField(fa *ssa.FieldAddr) bool {
	var root *ssa.Alloc
	x := ssa.Value(fa)
	for {
		f, ok := x.(*ssa.FieldAddr)
		if !ok {
			break
		}
		x = f.X
	}
	root, ok := x.(*ssa.Alloc)
	if !ok {
		return false
	}
	inits := 0
	var ok2 func(v ssa.Value, isRoot bool) bool
	ok2 = func(v ssa.Value, isRoot bool) bool {
		refs := v.Referrers()
		if refs == nil {
			return true
		}
		for _, r := range *refs {
			switch u := r.(type) {
			case *ssa.DebugRef, *ssa.UnOp:
			case *ssa.FieldAddr:
				if u.X != v || !ok2(u, false) {
					return false
				}
			case *ssa.Store:
				if u.Addr == v {
					if !isRoot || u.Block().Index != 0 {
						return false // a field (or the struct outside the entry block) is written
					}
					inits++
				}
				// u.Val == v: the escape itself
			default:
				return false
			}
		}
		return true
	}
	return ok2(root, true) && inits <= 1
}

func (fr *Frame) execIndex(i *ssa.Index) {
	x := fr.val(i.X)
	idx := fr.val(i.Index)
	switch xt := i.X.Type().Underlying().(type) {
	case *types.Array:
		fr.safety("bounds", "arrayindex", i.Pos(), and(sx("<=", "0", idx.T), sx("<", idx.T, num(xt.Len()))))
		fr.set(i, fr.mkVal(sx("aget!"+x.S, x.T, idx.T), i.Type()))
	default: // string
		fr.safety("bounds", "strindex", i.Pos(), and(sx("<=", "0", idx.T), sx("<", idx.T, sx("strlen", x.T))))
		fr.set(i, fr.freshVal("strbyte", i.Type()))
	}
}

// ---- maps

type mapHeaps struct {
	dom, val, ln       string
	domS, valS, lnS    Sort
	ks, vs             Sort
	kt, vt             types.Type
}

func (fr *Frame) mapHeaps(t types.Type) *mapHeaps {
	mt := t.Underlying().(*types.Map)
	U := fr.U()
	ks, vs := U.sortOf(mt.Key()), U.sortOf(mt.Elem())
	id := typeKey(mt.Key()) + "|" + typeKey(mt.Elem())
	return &mapHeaps{dom: "MD|" + id, val: "MV|" + id, ln: "ML|" + id,
		domS: arrSort(SInt, arrSort(ks, SBool)), valS: arrSort(SInt, arrSort(ks, vs)), lnS: arrSort(SInt, SInt), ks: ks, vs: vs, kt: mt.Key(), vt: mt.Elem()}
}

func (fr *Frame) mapHas(st *State, m Term, mh *mapHeaps, k Term) Term {
	return and(not(eq(m, "0")), sel(sel(fr.vc.heap(st, mh.dom, mh.domS), m), k))
}
func (fr *Frame) mapGet(st *State, m Term, mh *mapHeaps, k Term) Term {
	return sel(sel(fr.vc.heap(st, mh.val, mh.valS), m), k)
}
func (fr *Frame) mapLen(st *State, m Term, mh *mapHeaps) Term {
	return ite(eq(m, "0"), "0", sel(fr.vc.heap(st, mh.ln, mh.lnS), m))
}

// mapFacts adds the instance axioms linking domain and length.
func (fr *Frame) mapFacts(m Term, mh *mapHeaps, k Term) {
	vc := fr.vc
	ln := sel(vc.heap(fr.st, mh.ln, mh.lnS), m)
	vc.assume(fr.reach, sx(">=", ln, "0"))
	if k != "" {
		vc.mapKeys[mh.dom] = append(vc.mapKeys[mh.dom], k)
		vc.assume(fr.reach, imp(sel(sel(vc.heap(fr.st, mh.dom, mh.domS), m), k), sx(">=", ln, "1")))
	}
}

func (fr *Frame) execLookup(i *ssa.Lookup) {
	vc := fr.vc
	x := fr.val(i.X)
	idx := fr.val(i.Index)
	if _, ok := i.X.Type().Underlying().(*types.Map); !ok {
		// string index
		fr.safety("bounds", "strindex", i.Pos(), and(sx("<=", "0", idx.T), sx("<", idx.T, sx("strlen", x.T))))
		fr.set(i, fr.freshVal("strbyte", i.Type()))
		return
	}
	mh := fr.mapHeaps(i.X.Type())
	fr.guardMapAccess(i.X, false, i.Pos())
	fr.mapFacts(x.T, mh, idx.T)
	has := vc.define("has", SBool, fr.mapHas(fr.st, x.T, mh, idx.T))
	raw := fr.mapGet(fr.st, x.T, mh, idx.T)
	v := fr.mkVal(vc.define("mv", mh.vs, ite(has, raw, fr.zero(mh.vt))), mh.vt)
	vc.assume(fr.reach, fr.wfAlloc(v.T, mh.vt, vc.allocBound(vc.heap(fr.st, mh.val, mh.valS), fr.alloc()), 0))
	if i.CommaOk {
		fr.set(i, &Val{S: "Tuple", Typ: i.Type(), Tup: []*Val{v, fr.mkVal(has, types.Typ[types.Bool])}})
	} else {
		fr.set(i, v)
	}
}

func (fr *Frame) mapStore(m Term, mh *mapHeaps, k, v Term) {
	vc := fr.vc
	fr.markDirty(mh.dom, m)
	fr.markDirty(mh.val, m)
	fr.markDirty(mh.ln, m)
	d := vc.heap(fr.st, mh.dom, mh.domS)
	vv := vc.heap(fr.st, mh.val, mh.valS)
	l := vc.heap(fr.st, mh.ln, mh.lnS)
	had := sel(sel(d, m), k)
	vc.setHeap(fr.st, mh.ln, mh.lnS, store(l, m, ite(had, sel(l, m), sx("+", sel(l, m), "1"))))
	vc.setHeap(fr.st, mh.dom, mh.domS, store(d, m, store(sel(d, m), k, "true")))
	vc.setHeap(fr.st, mh.val, mh.valS, store(vv, m, store(sel(vv, m), k, v)))
}

func (fr *Frame) mapDelete(m Term, mh *mapHeaps, k Term) {
	vc := fr.vc
	fr.markDirty(mh.dom, m)
	fr.markDirty(mh.ln, m)
	d := vc.heap(fr.st, mh.dom, mh.domS)
	l := vc.heap(fr.st, mh.ln, mh.lnS)
	had := and(not(eq(m, "0")), sel(sel(d, m), k))
	vc.setHeap(fr.st, mh.ln, mh.lnS, ite(had, store(l, m, sx("-", sel(l, m), "1")), l))
	vc.setHeap(fr.st, mh.dom, mh.domS, ite(eq(m, "0"), d, store(d, m, store(sel(d, m), k, "false"))))
}

func (fr *Frame) execMapUpdate(i *ssa.MapUpdate) {
	m := fr.val(i.Map)
	k := fr.val(i.Key)
	v := fr.val(i.Value)
	mh := fr.mapHeaps(i.Map.Type())
	fr.safety("nilmap", "mapupdate", i.Pos(), not(eq(m.T, "0")))
	fr.guardMapAccess(i.Map, true, i.Pos())
	fr.mapFacts(m.T, mh, k.T)
	fr.mapStore(m.T, mh, k.T, v.T)
}

func (fr *Frame) newMap(t types.Type) *Val {
	vc := fr.vc
	mh := fr.mapHeaps(t)
	r := fr.newRef()
	d := vc.heap(fr.st, mh.dom, mh.domS)
	l := vc.heap(fr.st, mh.ln, mh.lnS)
	vc.heap(fr.st, mh.val, mh.valS)
	vc.setHeap(fr.st, mh.dom, mh.domS, store(d, r, sx("(as const "+arrSort(mh.ks, SBool)+")", "false")))
	vc.setHeap(fr.st, mh.ln, mh.lnS, store(l, r, "0"))
	return &Val{T: r, S: SInt, Typ: t}
}

// ---- slices


func (fr *Frame) execMakeSlice(i *ssa.MakeSlice) {
	vc := fr.vc
	U := fr.U()
	ln := fr.val(i.Len)
	cp := fr.val(i.Cap)
	et := i.Type().Underlying().(*types.Slice).Elem()
	es := U.sortOf(et)
	fr.safety("makeslice", "len", i.Pos(), and(sx("<=", "0", ln.T), sx("<=", ln.T, cp.T)))
	r := fr.newRef()
	hn, hs := U.elemHeapT(et)
	h := vc.heap(fr.st, hn, hs)
	vc.setHeap(fr.st, hn, hs, store(h, r, sx("(as const "+arrSort(SInt, es)+")", fr.zero(et))))
	fr.onAllocArray(r)
	fr.set(i, fr.mkVal(vc.define("mks", SSlice, sx("mkS", r, "0", ln.T, cp.T)), i.Type()))
}

func (fr *Frame) execSlice(i *ssa.Slice) {
	vc := fr.vc
	U := fr.U()
	x := fr.val(i.X)
	var lo, hi, mx Term
	if i.Low != nil {
		lo = fr.val(i.Low).T
	} else {
		lo = "0"
	}
	switch xt := i.X.Type().Underlying().(type) {
	case *types.Slice:
		if i.High != nil {
			hi = fr.val(i.High).T
		} else {
			hi = sx("slen", x.T)
		}
		capT := sx("scap", x.T)
		if i.Max != nil {
			mx = fr.val(i.Max).T
			fr.safety("bounds", "slice", i.Pos(), and(sx("<=", "0", lo), sx("<=", lo, hi), sx("<=", hi, mx), sx("<=", mx, capT)))
		} else {
			mx = capT
			fr.safety("bounds", "slice", i.Pos(), and(sx("<=", "0", lo), sx("<=", lo, hi), sx("<=", hi, capT)))
		}
		fr.set(i, fr.mkVal(vc.define("sl", SSlice, sx("mkS", sx("sarr", x.T), sx("+", sx("soff", x.T), lo), sx("-", hi, lo), sx("-", mx, lo))), i.Type()))
	case *types.Basic: // string
		if i.High != nil {
			hi = fr.val(i.High).T
		} else {
			hi = sx("strlen", x.T)
		}
		fr.safety("bounds", "strslice", i.Pos(), and(sx("<=", "0", lo), sx("<=", lo, hi), sx("<=", hi, sx("strlen", x.T))))
		U.declFun("substr", "(declare-fun substr (Str Int Int) Str)")
		v := fr.mkVal(vc.define("substr", SStr, sx("substr", x.T, lo, hi)), i.Type())
		vc.assume(fr.reach, eq(sx("strlen", v.T), sx("-", hi, lo)))
		fr.set(i, v)
	case *types.Pointer: // *[N]T
		at := xt.Elem().Underlying().(*types.Array)
		n := num(at.Len())
		if i.High != nil {
			hi = fr.val(i.High).T
		} else {
			hi = n
		}
		mx = n
		if i.Max != nil {
			mx = fr.val(i.Max).T
		}
		fr.safety("bounds", "slice", i.Pos(), and(sx("<=", "0", lo), sx("<=", lo, hi), sx("<=", hi, mx), sx("<=", mx, n)))
		if fr.isArrayAlloc(i.X) {
			ln := sx("-", hi, lo)
			if lo == "0" {
				ln = hi
			}
			cp := sx("-", mx, lo)
			if lo == "0" {
				cp = mx
			}
			fr.set(i, fr.mkVal(vc.define("sl", SSlice, sx("mkS", x.T, lo, ln, cp)), i.Type()))
		} else {
			vc.note("slice of non-local array pointer in %s (contents abstracted)", fr.fn)
			fr.set(i, fr.freshVal("arrslice", i.Type()))
		}
	}
}

// ---- interfaces

func (fr *Frame) makeIface(x *Val, ct types.Type, it types.Type) *Val {
	U := fr.U()
	if _, ok := ct.Underlying().(*types.Interface); ok {
		return &Val{T: x.T, S: SIface, Typ: it}
	}
	tag := U.tagOf(ct)
	var payload Term
	switch ct.Underlying().(type) {
	case *types.Pointer, *types.Map, *types.Chan, *types.Signature:
		payload = x.T
	default:
		payload = U.box(x.S, x.T)
		if x.S != SInt && x.S != SBool {
			fr.vc.assume("true", eq(U.unbox(x.S, payload), x.T))
		}
	}
	v := &Val{T: fr.vc.define("mi", SIface, sx("mkI", num(int64(tag)), payload)), S: SIface, Typ: it}
	return v
}

func (fr *Frame) ifaceUnbox(x Term, ct types.Type) Term {
	U := fr.U()
	switch ct.Underlying().(type) {
	case *types.Pointer, *types.Map, *types.Chan, *types.Signature:
		return sx("ival", x)
	}
	return U.unbox(U.sortOf(ct), sx("ival", x))
}

func (fr *Frame) execTypeAssert(i *ssa.TypeAssert) {
	vc := fr.vc
	U := fr.U()
	x := fr.val(i.X)
	at := i.AssertedType
	var ok Term
	var v *Val
	if _, isI := at.Underlying().(*types.Interface); isI {
		// interface-to-interface: succeeds iff dynamic type implements it. Enumerate known tags lazily: abstract.
		ok = fr.ifaceImplements(x.T, at)
		v = &Val{T: x.T, S: SIface, Typ: at}
	} else {
		tag := U.tagOf(at)
		ok = vc.define("taok", SBool, eq(sx("itag", x.T), num(int64(tag))))
		v = fr.mkVal(vc.define("ta", U.sortOf(at), fr.ifaceUnbox(x.T, at)), at)
	}
	if i.CommaOk {
		res := fr.mkVal(vc.define("tav", v.S, ite(ok, v.T, fr.zero(at))), at)
		vc.assume(fr.reach, imp(ok, fr.wf(v.T, at)))
		fr.set(i, &Val{S: "Tuple", Typ: i.Type(), Tup: []*Val{res, fr.mkVal(ok, types.Typ[types.Bool])}})
	} else {
		fr.safety("typeassert", "assert", i.Pos(), ok)
		vc.assume(fr.reach, fr.wf(v.T, at))
		fr.set(i, v)
	}
}

func (fr *Frame) ifaceImplements(x Term, it types.Type) Term {
	iface := it.Underlying().(*types.Interface)
	if iface.NumMethods() == 0 {
		return not(eq(sx("itag", x), "0"))
	}
	// unknown in general; non-nil is necessary
	c := fr.vc.fresh("implements", SBool)
	fr.vc.assume(fr.reach, imp(c, not(eq(sx("itag", x), "0"))))
	return c
}

// ---- conversions

func (fr *Frame) execConvert(i *ssa.Convert) {
	vc := fr.vc
	U := fr.U()
	x := fr.val(i.X)
	from, to := i.X.Type().Underlying(), i.Type().Underlying()
	fb, fok := from.(*types.Basic)
	tb, tok := to.(*types.Basic)
	switch {
	case fok && tok && fb.Info()&types.IsInteger != 0 && tb.Info()&types.IsInteger != 0:
		flo, fhi := intRange(fb)
		tlo, thi := intRange(tb)
		_ = flo
		_ = fhi
		bits, signed := intBits(tb)
		fbits, fsigned := intBits(fb)
		if (signed == fsigned && bits >= fbits) || (signed && !fsigned && bits > fbits) {
			fr.set(i, fr.mkVal(x.T, i.Type())) // widening: value preserved
			return
		}
		if bits <= 32 {
			fr.set(i, fr.mkVal(vc.define("cv", SInt, wrapInt(x.T, i.Type())), i.Type()))
			return
		}
		// 64-bit target from 64-bit source of other signedness (or int64 -> uint64 ...): exact two's complement
		m := "18446744073709551616"
		if signed {
			fr.set(i, fr.mkVal(vc.define("cv", SInt, ite(sx(">", x.T, thi), sx("-", x.T, m), x.T)), i.Type()))
		} else {
			fr.set(i, fr.mkVal(vc.define("cv", SInt, ite(sx("<", x.T, tlo), sx("+", x.T, m), x.T)), i.Type()))
		}
	case fok && tok && fb.Info()&types.IsInteger != 0 && tb.Info()&types.IsFloat != 0:
		fr.set(i, fr.mkVal(sx("to_real", x.T), i.Type()))
	case fok && tok && fb.Info()&types.IsFloat != 0 && tb.Info()&types.IsInteger != 0:
		// truncation toward zero; out-of-range is implementation-defined: abstract + range
		// (only the non-negative in-range case is pinned: to_int is floor, Go truncates toward zero)
		v := fr.freshVal("f2i", i.Type())
		_, h := intRange(tb)
		vc.assume(fr.reach, imp(and(sx("<=", "0.0", x.T), sx("<", x.T, sx("+", Term(string(h)+".0"), "1.0"))), eq(v.T, sx("to_int", x.T))))
		fr.set(i, v)
	case fok && tok && fb.Info()&types.IsFloat != 0 && tb.Info()&types.IsFloat != 0:
		fr.set(i, fr.mkVal(x.T, i.Type()))
	case fok && tok && fb.Info()&types.IsString != 0 && tb.Info()&types.IsString != 0:
		fr.set(i, fr.mkVal(x.T, i.Type()))
	case tok && tb.Info()&types.IsString != 0 && isByteSlice(from):
		// string(bytes): abstract function of the contents snapshot
		U.declFun("str.of.bytes", "(declare-fun str.of.bytes ((Array Int Int) Int Int) Str)")
		hn, hs := U.elemHeapT(types.Typ[types.Uint8])
		row := sel(vc.heap(fr.st, hn, hs), sx("sarr", x.T))
		v := fr.mkVal(vc.define("s", SStr, sx("str.of.bytes", row, sx("soff", x.T), sx("slen", x.T))), i.Type())
		vc.assume(fr.reach, eq(sx("strlen", v.T), sx("slen", x.T)))
		fr.set(i, v)
	case fok && fb.Info()&types.IsString != 0 && isByteSlice(to):
		// []byte(s): fresh array whose contents are a function of s
		U.declFun("bytes.of.str", "(declare-fun bytes.of.str (Str) (Array Int Int))")
		r := fr.newRef()
		hn, hs := U.elemHeapT(types.Typ[types.Uint8])
		h := vc.heap(fr.st, hn, hs)
		vc.setHeap(fr.st, hn, hs, store(h, r, sx("bytes.of.str", x.T)))
		fr.set(i, fr.mkVal(vc.define("bs", SSlice, sx("mkS", r, "0", sx("strlen", x.T), sx("strlen", x.T))), i.Type()))
	case tok && tb.Info()&types.IsString != 0 && fok && fb.Info()&types.IsInteger != 0:
		fr.set(i, fr.freshVal("runestr", i.Type()))
	default:
		if x.S == U.sortOf(i.Type()) {
			fr.set(i, fr.mkVal(x.T, i.Type()))
			return
		}
		vc.note("unsupported conversion %s -> %s in %s", i.X.Type(), i.Type(), fr.fn)
		fr.set(i, fr.freshVal("conv", i.Type()))
	}
}

func isByteSlice(t types.Type) bool {
	s, ok := t.(*types.Slice)
	if !ok {
		return false
	}
	b, ok := s.Elem().Underlying().(*types.Basic)
	return ok && (b.Kind() == types.Uint8 || b.Kind() == types.Int32)
}

// ---- range over map / string

func (fr *Frame) execRange(i *ssa.Range) {
	vc := fr.vc
	x := fr.val(i.X)
	fr.rangeMap[i] = x
	if _, ok := i.X.Type().Underlying().(*types.Map); ok {
		mh := fr.mapHeaps(i.X.Type())
		name := fmt.Sprintf("$vis|%s|%s", fr.key, i.Name())
		fr.rangeVis[i] = name
		vc.setHeap(fr.st, name, arrSort(mh.ks, SBool), sx("(as const "+arrSort(mh.ks, SBool)+")", "false"))
		vc.setHeap(fr.st, name+"#count", SInt, "0")
		fr.rangeLen[i] = vc.heap(fr.st, mh.ln, mh.lnS)
		fr.guardMapAccess(i.X, false, i.Pos())
	}
	fr.set(i, &Val{T: "0", S: SInt, Typ: i.Type()})
}

func (fr *Frame) execNext(i *ssa.Next) {
	vc := fr.vc
	tup := i.Type().(*types.Tuple)
	okv := fr.mkVal(vc.fresh("next.ok", SBool), types.Typ[types.Bool])
	rng := i.Iter.(*ssa.Range)
	if i.IsString {
		k := fr.freshVal("next.k", tup.At(1).Type())
		v := fr.freshVal("next.v", tup.At(2).Type())
		fr.set(i, &Val{S: "Tuple", Typ: i.Type(), Tup: []*Val{okv, k, v}})
		return
	}
	m := fr.rangeMap[rng]
	mh := fr.mapHeaps(rng.X.Type())
	visName := fr.rangeVis[rng]
	visS := arrSort(mh.ks, SBool)
	vis := vc.heap(fr.st, visName, visS)
	var k *Val
	if isInvalid(tup.At(1).Type()) {
		k = fr.freshVal("next.k", mh.kt)
	} else {
		k = fr.freshVal("next.k", mh.kt)
	}
	dom := sel(vc.heap(fr.st, mh.dom, mh.domS), m.T)
	fr.mapFacts(m.T, mh, k.T)
	vc.assume(fr.reach, imp(okv.T, and(not(eq(m.T, "0")), sel(dom, k.T), not(sel(vis, k.T)))))
	// exhausted: every key of the current domain was visited
	vc.assume(fr.reach, imp(not(okv.T), or(eq(m.T, "0"), fmt.Sprintf("(forall ((k!q %s)) (! (=> (select %s k!q) (select %s k!q)) :pattern ((select %s k!q))))", mh.ks, dom, vis, dom))))
	v := fr.mkVal(vc.define("next.v", mh.vs, fr.mapGet(fr.st, m.T, mh, k.T)), mh.vt)
	vc.assume(fr.reach, imp(okv.T, fr.wf(v.T, mh.vt)))
	vc.setHeap(fr.st, visName, visS, ite(okv.T, store(vis, k.T, "true"), vis))
	cnt := vc.heap(fr.st, visName+"#count", SInt)
	vc.assume(fr.reach, sx(">=", cnt, "0"))
	if fr.rangeLen[rng] == vc.heap(fr.st, mh.ln, mh.lnS) {
		// the map was not resized since the range started: exactly len(m) keys are visited
		vc.assume(fr.reach, and(imp(okv.T, sx("<", cnt, fr.mapLen(fr.st, m.T, mh))), imp(not(okv.T), eq(cnt, fr.mapLen(fr.st, m.T, mh)))))
	}
	vc.setHeap(fr.st, visName+"#count", SInt, ite(okv.T, sx("+", cnt, "1"), cnt))
	fr.set(i, &Val{S: "Tuple", Typ: i.Type(), Tup: []*Val{okv, k, v}})
	{
		saved := fr.reach
		fr.reach = vc.define("next.taken", SBool, and(saved, okv.T))
		fr.ghostAfter("next", "", map[string]*Val{"k": k, "v": v})
		fr.reach = saved
		// `after rangedone`: the range is exhausted (every key of the map was visited)
		fr.reach = vc.define("next.done", SBool, and(saved, not(okv.T)))
		fr.ghostAfter("rangedone", "", map[string]*Val{})
		fr.reach = saved
	}
	fr.onRangeNext(rng, i, okv, k, v)
}

func isInvalid(t types.Type) bool {
	b, ok := t.(*types.Basic)
	return ok && b.Kind() == types.Invalid
}

// ---- channels, goroutines (section 5 of DESIGN.md: over-approximation)

func (fr *Frame) execRecv(i *ssa.UnOp) {
	ch := fr.val(i.X)
	et := i.X.Type().Underlying().(*types.Chan).Elem()
	v := fr.freshVal("recv", et)
	if i.CommaOk {
		ok := fr.mkVal(fr.vc.fresh("recv.ok", SBool), types.Typ[types.Bool])
		if v.T != "" && len(v.Tup) == 0 {
			fr.vc.assume(fr.reach, imp(not(ok.T), eq(v.T, fr.zero(et)))) // a closed channel yields the zero value
		}
		fr.onRecvOk(ch, v, ok.T, i.Pos())
		fr.set(i, &Val{S: "Tuple", Typ: i.Type(), Tup: []*Val{v, ok}})
	} else {
		fr.onRecv(ch, v, i.Pos())
		fr.set(i, v)
	}
}

func (fr *Frame) execSend(i *ssa.Send) {
	fr.onSend(fr.val(i.Chan), fr.val(i.X), i.Pos())
}

func (fr *Frame) execSelect(i *ssa.Select) {
	vc := fr.vc
	tup := i.Type().(*types.Tuple)
	idx := fr.mkVal(vc.fresh("sel.idx", SInt), types.Typ[types.Int])
	lo := "0"
	if !i.Blocking {
		lo = "(- 1)"
	}
	vc.assume(fr.reach, and(sx("<=", lo, idx.T), sx("<", idx.T, num(int64(len(i.States))))))
	okv := fr.mkVal(vc.fresh("sel.ok", SBool), types.Typ[types.Bool])
	out := []*Val{idx, okv}
	fr.anchorAsserts("select", "", i.Pos(), map[string]*Val{"idx": idx})
	n := 2
	for si, s := range i.States {
		if s.Dir == types.RecvOnly {
			ch := fr.val(s.Chan)
			if !i.Blocking {
				// a closed Done channel is always ready: the default arm is not taken for a done context
				if c, isDone := fr.ctxOfDoneChan(ch); isDone {
					vc.assume(fr.reach, imp(eq(idx.T, "(- 1)"), not(sel(vc.heap(fr.st, ctxDoneHeap, ctxDoneSort), c))))
				}
			}
			v := fr.freshVal("sel.recv", tup.At(n).Type())
			savedReach := fr.reach
			fr.reach = vc.define("selcase", SBool, and(savedReach, eq(idx.T, num(int64(si)))))
			fr.selectOk = okv.T
			fr.onRecv(ch, v, s.Pos)
			fr.selectOk = ""
			fr.onSelectCase(i, si, ch)
			fr.reach = savedReach
			out = append(out, v)
			n++
		} else {
			savedReach := fr.reach
			fr.reach = vc.define("selcase", SBool, and(savedReach, eq(idx.T, num(int64(si)))))
			// `cancellable` in send anchors: the send is an arm of a select that also waits for a context's Done channel
			fr.sendCancellable = false
			for _, o := range i.States {
				if o.Dir == types.RecvOnly {
					if _, isDone := fr.ctxOfDoneChan(fr.val(o.Chan)); isDone {
						fr.sendCancellable = true
					}
				}
			}
			fr.sendNonBlocking = !i.Blocking
			fr.onSend(fr.val(s.Chan), fr.val(s.Send), s.Pos)
			fr.sendCancellable = false
			fr.sendNonBlocking = false
			fr.reach = savedReach
		}
	}
	fr.set(i, &Val{S: "Tuple", Typ: i.Type(), Tup: out})
}

func (fr *Frame) execGo(i *ssa.Go) {
	// goroutine start: precondition of the callee would be asserted here; the
	// callee is verified on its own. No effect on the current state.
	fr.vc.note("go statement in %s: spawned function verified separately", fr.fn)
	c := &i.Call
	if c.IsInvoke() {
		return
	}
	callee := c.StaticCallee()
	if callee == nil {
		return
	}
	{
		bind := map[string]*Val{}
		for k, a := range c.Args {
			bind[fmt.Sprintf("arg%d", k)] = fr.val(a)
		}
		fr.anchorAsserts("go", callee.String(), i.Pos(), bind)
		fr.ghostAfter("go", callee.String(), bind)
	}
	fc := fr.vc.eng.contractOf(callee)
	if fc == nil || len(fc.Requires) == 0 {
		return
	}
	var args []*Val
	for _, a := range c.Args {
		args = append(args, fr.val(a))
	}
	vars := map[string]*Val{}
	for k, p := range callee.Params {
		if k < len(args) {
			vars[p.Name()] = args[k]
		}
	}
	n := 6000 + len(fr.vc.cmds)
	env := &SpecEnv{fr: fr, vars: vars, cur: fr.st, old: fr.st, pkg: pkgOf(callee), nq: &n}
	p := fr.pos(i.Pos())
	for k, cl := range fc.Requires {
		if call, ok := cl.Expr.(*ast.CallExpr); ok {
			if id, ok := call.Fun.(*ast.Ident); ok && (id.Name == "held" || id.Name == "rheld") {
				continue // a new goroutine starts with an empty lockset
			}
		}
		t, err := fr.evalSpecBool(cl.Expr, env)
		if err != nil {
			fr.vc.specError(fr, cl, err)
			continue
		}
		fr.vc.oblige("pre", fmt.Sprintf("%s/pre#%d@go %s#%s", relFuncName(fr.vc.fn), k+1, relFuncName(callee), hash4(fr.vc.eng.srcLine(p))), p, cl.Text, fr.reach, t, fr.vc.callerProps(cl))
	}
}
