package main

import (
	"path"
	"bufio"
	"fmt"
	"go/parser"
	"go/ast"
	"go/token"
	"go/types"
	"os"
	"sort"
	"strings"
	"sync"

	"golang.org/x/tools/go/packages"
	"golang.org/x/tools/go/ssa"
	"golang.org/x/tools/go/ssa/ssautil"
)

const modulePath = "github.com/aptpod/iscp-go"

func parserParseExpr(s string) (ast.Expr, error) { return parser.ParseExpr(s) }

type Engine struct {
	lockSums map[*ssa.Function][]string // mutexes of its receiver a method may acquire (locksum.go)
	extIface map[string]*FuncContract // assumed contracts of interfaces declared outside the module

	repo       string
	prog       *ssa.Program
	pkgs       []*packages.Package
	spkgs      map[string]*ssa.Package
	contracts  map[string]*PkgContracts // by package path
	funcByKey  map[string]*ssa.Function // pkgpath + " " + relstring
	sweepMode  bool
	lockChecks bool
	rekeyed    []string // closure contracts moved to another ordinal by their call anchors (rekey.go)
	srcCache   map[string][]string
	srcMu      sync.Mutex
	modsets    map[*ssa.Function]*ModSet
	modMu      sync.Mutex
	allFuncs   map[*ssa.Function]bool
	globalInit map[*ssa.Global]*ssa.Function
	implCache  map[string][]*ssa.Function
	dynCache   map[string]*ModSet
	modsDone   bool
	importAlias map[string]map[string]string
	sigCache   map[string][]*ssa.Function
	loadErrs   []string
	autoOnce   sync.Once
	autoSet    map[*ssa.Function]bool
}

func cleanEnv() []string {
	var out []string
	for _, e := range os.Environ() {
		if strings.HasPrefix(e, "GOSUMDB=") || strings.HasPrefix(e, "GOTOOLCHAIN=") || strings.HasPrefix(e, "GOFLAGS=") {
			continue
		}
		out = append(out, e)
	}
	return append(out, "GOFLAGS=-mod=mod", "GOPROXY=off")
}

func LoadEngine(repo string) (*Engine, error) {
	cfg := &packages.Config{Mode: packages.LoadAllSyntax, Dir: repo, Env: cleanEnv()}
	pkgs, err := packages.Load(cfg, "./...")
	if err != nil {
		return nil, err
	}
	e := &Engine{repo: repo, pkgs: pkgs, spkgs: map[string]*ssa.Package{}, contracts: map[string]*PkgContracts{}, funcByKey: map[string]*ssa.Function{},
		srcCache: map[string][]string{}, modsets: map[*ssa.Function]*ModSet{}, globalInit: map[*ssa.Global]*ssa.Function{}, implCache: map[string][]*ssa.Function{}, dynCache: map[string]*ModSet{}, sigCache: map[string][]*ssa.Function{}, lockChecks: true}
	for _, p := range pkgs {
		for _, er := range p.Errors {
			e.loadErrs = append(e.loadErrs, er.Error())
		}
	}
	if len(e.loadErrs) > 0 {
		return e, fmt.Errorf("package load errors: %s", strings.Join(e.loadErrs, "; "))
	}
	prog, spkgs := ssautil.AllPackages(pkgs, ssa.InstantiateGenerics|ssa.GlobalDebug)
	prog.Build()
	e.prog = prog
	e.importAlias = map[string]map[string]string{}
	for _, p := range pkgs {
		m := map[string]string{}
		for _, f := range p.Syntax {
			for _, im := range f.Imports {
				path := strings.Trim(im.Path.Value, "\"")
				if im.Name != nil && im.Name.Name != "_" && im.Name.Name != "." {
					m[im.Name.Name] = path
				}
			}
		}
		e.importAlias[p.PkgPath] = m
	}
	for i, sp := range spkgs {
		if sp == nil {
			continue
		}
		e.spkgs[sp.Pkg.Path()] = sp
		dir := ""
		if len(pkgs[i].GoFiles) > 0 {
			dir = pkgs[i].GoFiles[0][:strings.LastIndex(pkgs[i].GoFiles[0], "/")]
		}
		if dir != "" {
			if _, err := os.Stat(dir + "/contracts_verif.go"); err == nil {
				pc, err := ParseContracts(dir, sp.Pkg.Path())
				if err != nil {
					return e, err
				}
				e.contracts[sp.Pkg.Path()] = pc
				for k, fc := range pc.Funcs {
					if fc.IsIface && strings.Count(k, ".") == 2 {
						if e.extIface == nil {
							e.extIface = map[string]*FuncContract{}
						}
						if _, dup := e.extIface[k]; dup {
							return e, fmt.Errorf("%s: duplicate external interface contract %s", pc.File, k)
						}
						e.extIface[k] = fc
					}
				}
			}
		}
	}
	for pp, pc := range e.contracts {
		for _, ci := range pc.ChanInvs {
			te, err := parser.ParseExpr(ci.Elem)
			if err != nil {
				return e, fmt.Errorf("%s: chaninv: %v", pc.File, err)
			}
			n := 0
			env := &SpecEnv{fr: &Frame{vc: &VC{eng: e, U: NewUniverse()}}, pkg: e.spkgs[pp], vars: map[string]*Val{}, nq: &n}
			t, err := env.resolveType(te)
			if err != nil || t == nil {
				return e, fmt.Errorf("%s: chaninv: cannot resolve %s", pc.File, ci.Elem)
			}
			ci.resolved = types.TypeString(t, nil)
		}
	}
	e.allFuncs = ssautil.AllFunctions(prog)
	for f := range e.allFuncs {
		if f.Pkg != nil && e.inModule(f) {
			e.funcByKey[f.Pkg.Pkg.Path()+" "+relFuncName(f)] = f
		} else if f.Parent() != nil && e.inModule(f) {
			e.funcByKey[pkgOf(f).Pkg.Path()+" "+relFuncName(f)] = f
		}
	}
	e.expandGlobContracts()
	e.rekeyClosures()
	e.impliedRecoverContracts()
	// package-level function variables initialised once with a function (timeNow = time.Now) are NOT resolved: tests replace them.
	return e, nil
}

// expandGlobContracts: a contract whose key contains `*` (e.g. `func to*ExtensionFieldsProto`) stands
// for one contract per package-level function of the package whose name matches the pattern and
// that has no contract of its own; functions added later are covered without touching the file.
// A pattern that matches nothing is reported like a contract naming a function that does not exist.
func (e *Engine) expandGlobContracts() {
	for pp, pc := range e.contracts {
		var keys []string
		for k := range pc.Funcs {
			if strings.Contains(k, "*") {
				keys = append(keys, k)
			}
		}
		sort.Strings(keys)
		for _, k := range keys {
			g := pc.Funcs[k]
			var names []string
			for fk, f := range e.funcByKey {
				if !strings.HasPrefix(fk, pp+" ") || f.Parent() != nil || f.Signature.Recv() != nil || len(f.Blocks) == 0 {
					continue
				}
				name := strings.TrimPrefix(fk, pp+" ")
				if ok, _ := path.Match(k, name); ok {
					if _, has := pc.Funcs[name]; !has {
						names = append(names, name)
					}
				}
			}
			sort.Strings(names)
			if len(names) == 0 {
				continue // stays in pc.Funcs under its pattern and is reported as unresolved
			}
			delete(pc.Funcs, k)
			var order []string
			for _, o := range pc.Order {
				if o == k {
					order = append(order, names...)
				} else {
					order = append(order, o)
				}
			}
			pc.Order = order
			for _, n := range names {
				c := *g
				c.Key = n
				pc.Funcs[n] = &c
			}
		}
	}
}

// firstDeferred returns the function called by the first `defer` of fn's entry block when nothing
// that can panic precedes it (closure or named function), the defer instruction, and a reason.
func firstDeferred(fn *ssa.Function) (*ssa.Function, *ssa.Defer, string) {
	if len(fn.Blocks) == 0 {
		return nil, nil, "no body"
	}
	for _, in := range fn.Blocks[0].Instrs {
		switch i := in.(type) {
		case *ssa.Alloc, *ssa.MakeClosure, *ssa.DebugRef, *ssa.Store, *ssa.FieldAddr, *ssa.UnOp:
			continue
		case *ssa.Defer:
			if mc, ok := i.Call.Value.(*ssa.MakeClosure); ok {
				if cf, _ := mc.Fn.(*ssa.Function); cf != nil {
					return cf, i, ""
				}
			}
			if cf := i.Call.StaticCallee(); cf != nil && len(cf.Blocks) > 0 {
				return cf, i, ""
			}
			return nil, i, "first defer is neither a closure nor a function with a body"
		default:
			return nil, nil, fmt.Sprintf("instruction %T precedes the recovering defer", in)
		}
	}
	return nil, nil, "no defer in the entry block"
}

// impliedRecoverContracts: `recoverguard` on F says "the first deferred call turns any panic into a
// non-nil error result".  When the deferred function has no contract of its own, the contract that
// this demands of it is implied: `recovers`, `nopanic`, and - with recover() yielding a non-nil
// value - the error result it can reach is non-nil afterwards (`er != nil` for a closure capturing
// the named result `er`; `*p != nil` for a named function that is handed the result's address).
// So the recovering code may be a closure or a helper, numbered or named however the maintainer likes.
func (e *Engine) impliedRecoverContracts() {
	for pp, pc := range e.contracts {
		var keys []string
		for k := range pc.Funcs {
			keys = append(keys, k)
		}
		sort.Strings(keys)
		for _, k := range keys {
			fc := pc.Funcs[k]
			if !fc.RecoverGuard {
				continue
			}
			fn := e.funcByKey[pp+" "+k]
			if fn == nil {
				continue
			}
			cf, d, _ := firstDeferred(fn)
			if cf == nil || !e.inModule(cf) || e.contractOf(cf) != nil {
				continue
			}
			errT := types.Universe.Lookup("error").Type()
			isErrPtr := func(t types.Type) bool {
				pt, ok := t.Underlying().(*types.Pointer)
				return ok && types.Identical(pt.Elem(), errT)
			}
			text, pre := "", ""
			if cf.Parent() != nil {
				for _, fv := range cf.FreeVars {
					if isErrPtr(fv.Type()) {
						text = fv.Name() + " != nil"
					}
				}
			} else {
				for i, p := range cf.Params {
					if isErrPtr(p.Type()) && i < len(d.Call.Args) {
						if al, ok := d.Call.Args[i].(*ssa.Alloc); ok && isNamedResult(fn, al) {
							text = "*" + p.Name() + " != nil"
							pre = p.Name() + " != nil"
						}
					}
				}
			}
			if text == "" {
				continue // recoverGuardOK reports that the deferred function cannot be shown to set the error result
			}
			ex, err := parser.ParseExpr(text)
			if err != nil {
				continue
			}
			cpc := e.contracts[pkgOf(cf).Pkg.Path()]
			if cpc == nil {
				continue
			}
			key := relFuncName(cf)
			nfc := &FuncContract{Key: key, PkgPath: cpc.PkgPath, Loops: map[int][]*Clause{}, Asserts: map[string][]*Clause{}, File: fc.File, Line: fc.Line,
				Props: fc.RecoverGuardProps, Recovers: true, NoPanic: true, NoPanicProps: fc.RecoverGuardProps, Implied: true}
			nfc.Ensures = append(nfc.Ensures, &Clause{Text: text + "   (implied by `recoverguard` of " + k + ")", Expr: ex, Props: fc.RecoverGuardProps, File: fc.File, Line: fc.Line, Kind: "ensures"})
			if pre != "" {
				if px, err := parser.ParseExpr(pre); err == nil {
					nfc.Requires = append(nfc.Requires, &Clause{Text: pre + "   (implied by `recoverguard` of " + k + ")", Expr: px, Props: fc.RecoverGuardProps, File: fc.File, Line: fc.Line, Kind: "requires"})
				}
			}
			cpc.Funcs[key] = nfc
			cpc.Order = append(cpc.Order, key)
		}
	}
}

func isNamedResult(fn *ssa.Function, al *ssa.Alloc) bool {
	res := fn.Signature.Results()
	for i := 0; i < res.Len(); i++ {
		if res.At(i).Name() != "" && res.At(i).Name() == al.Comment {
			return true
		}
	}
	return false
}

func pkgOf(f *ssa.Function) *ssa.Package {
	for f != nil {
		if f.Pkg != nil {
			return f.Pkg
		}
		if f.Parent() != nil {
			f = f.Parent()
			continue
		}
		if f.Origin() != nil {
			f = f.Origin()
			continue
		}
		return nil
	}
	return nil
}

func (e *Engine) inModule(f *ssa.Function) bool {
	p := pkgOf(f)
	return p != nil && strings.HasPrefix(p.Pkg.Path(), modulePath)
}

func (e *Engine) inModuleType(t types.Type) bool {
	n := namedOf(t)
	return n != nil && n.Obj().Pkg() != nil && strings.HasPrefix(n.Obj().Pkg().Path(), modulePath)
}

func (e *Engine) moduleGlobal(heap string) bool {
	return strings.HasPrefix(heap, "G|"+modulePath)
}

func (e *Engine) pureGlobal(g *ssa.Global) bool {
	if g.Pkg == nil {
		return false
	}
	pc := e.contracts[g.Pkg.Pkg.Path()]
	return pc != nil && pc.Pure[g.Name()]
}

// autoInline: a helper that is part of its callers.  An unexported, uncontracted, loop-free, small
// in-module function or method that is only ever the static callee of plain calls (never a function
// value, never started with `go`, never deferred, never reachable through an interface) is executed
// inline at each call site, in the caller's lock state and ghost state; the anchored clauses of the
// calling function's contract apply inside it.  Extracting a few lines of a function under contract
// into such a helper therefore changes no obligation.  The helper is not verified on its own by the
// lock / guarded-by sweeps (its callers are).  GOVC_NOAUTOINLINE=1 turns this off.
func (e *Engine) autoInline(f *ssa.Function) bool {
	e.autoOnce.Do(e.computeAutoInline)
	return e.autoSet[f]
}

const autoInlineMaxInstrs = 120

func hasCycle(f *ssa.Function) bool {
	state := make([]int, len(f.Blocks)) // 0 new, 1 on stack, 2 done
	var dfs func(b *ssa.BasicBlock) bool
	dfs = func(b *ssa.BasicBlock) bool {
		state[b.Index] = 1
		for _, s := range b.Succs {
			if state[s.Index] == 1 || (state[s.Index] == 0 && dfs(s)) {
				return true
			}
		}
		state[b.Index] = 2
		return false
	}
	return len(f.Blocks) > 0 && dfs(f.Blocks[0])
}

func (e *Engine) computeAutoInline() {
	e.autoSet = map[*ssa.Function]bool{}
	if os.Getenv("GOVC_NOAUTOINLINE") != "" {
		return
	}
	escaped := map[*ssa.Function]bool{}
	ifaceMethods := map[string]bool{}
	for _, p := range e.prog.AllPackages() {
		if !strings.HasPrefix(p.Pkg.Path(), modulePath) {
			continue
		}
		sc := p.Pkg.Scope()
		for _, n := range sc.Names() {
			if tn, ok := sc.Lookup(n).(*types.TypeName); ok {
				if it, ok := tn.Type().Underlying().(*types.Interface); ok {
					for i := 0; i < it.NumMethods(); i++ {
						ifaceMethods[it.Method(i).Name()] = true
					}
				}
			}
		}
	}
	for g := range e.allFuncs {
		for _, b := range g.Blocks {
			for _, in := range b.Instrs {
				if _, dbg := in.(*ssa.DebugRef); dbg {
					continue
				}
				var callee ssa.Value
				if c, ok := in.(*ssa.Call); ok && !c.Call.IsInvoke() && g.Synthetic == "" {
					callee = c.Call.Value
				}
				for _, op := range in.Operands(nil) {
					if op == nil || *op == nil {
						continue
					}
					if fn, ok := (*op).(*ssa.Function); ok {
						if callee != nil && *op == callee && op == &in.(*ssa.Call).Call.Value {
							continue
						}
						if w := os.Getenv("GOVC_AUTOINLINE_WHY"); w != "" && strings.Contains(fn.String(), w) {
							fmt.Fprintf(os.Stderr, "AUTOINLINE-ESC %s in %s: %T %s\n", fn, g, in, in)
						}
						escaped[fn] = true
					}
				}
			}
		}
	}
	why := os.Getenv("GOVC_AUTOINLINE_WHY")
	for f := range e.allFuncs {
		if why != "" && strings.Contains(f.String(), why) {
			fmt.Fprintln(os.Stderr, "AUTOINLINE-WHY", f, "inModule", e.inModule(f), "blocks", len(f.Blocks), "synthetic", f.Synthetic, "parent", f.Parent() != nil, "escaped", escaped[f],
				"exported", f.Object() != nil && f.Object().Exported(), "contract", e.contractOf(f) != nil, "cycle", hasCycle(f))
		}
		if !e.inModule(f) || len(f.Blocks) == 0 || f.Synthetic != "" || f.Parent() != nil || escaped[f] {
			continue
		}
		if f.Object() == nil || f.Object().Exported() || f.Name() == "init" || f.Name() == "main" || f.TypeParams().Len() > 0 || len(f.TypeArgs()) > 0 {
			continue
		}
		if f.Signature.Recv() != nil && ifaceMethods[f.Name()] {
			continue
		}
		if e.contractOf(f) != nil {
			continue
		}
		n, ok := 0, !hasCycle(f) // loops need invariants, i.e. a contract
		for _, b := range f.Blocks {
			for _, in := range b.Instrs {
				if _, dbg := in.(*ssa.DebugRef); !dbg {
					n++
				}
				switch in.(type) {
				case *ssa.Go:
					ok = false
				case *ssa.Defer:
					// `defer mu.Unlock()` and the like; a deferred closure (which might recover) needs a contract
					if d := in.(*ssa.Defer); d.Call.IsInvoke() || d.Call.StaticCallee() == nil || d.Call.StaticCallee().Parent() != nil {
						ok = false
					}
				}
			}
		}
		if ok && n <= autoInlineMaxInstrs {
			e.autoSet[f] = true
		}
	}
}

func (e *Engine) srcLine(p token.Position) string {
	if p.Filename == "" {
		return ""
	}
	e.srcMu.Lock()
	defer e.srcMu.Unlock()
	ls, ok := e.srcCache[p.Filename]
	if !ok {
		f, err := os.Open(p.Filename)
		if err == nil {
			sc := bufio.NewScanner(f)
			sc.Buffer(make([]byte, 1<<20), 1<<20)
			for sc.Scan() {
				ls = append(ls, sc.Text())
			}
			f.Close()
		}
		e.srcCache[p.Filename] = ls
	}
	if p.Line-1 < len(ls) && p.Line > 0 {
		return strings.TrimSpace(ls[p.Line-1])
	}
	return ""
}

func (e *Engine) contractOf(f *ssa.Function) *FuncContract {
	p := pkgOf(f)
	if p == nil {
		return nil
	}
	pc := e.contracts[p.Pkg.Path()]
	if pc == nil {
		return nil
	}
	return pc.Funcs[relFuncName(f)]
}

func (e *Engine) ifaceContract(c *ssa.CallCommon) *FuncContract {
	n := namedOf(c.Value.Type())
	if n == nil || n.Obj().Pkg() == nil {
		return nil
	}
	if pc := e.contracts[n.Obj().Pkg().Path()]; pc != nil {
		fc := pc.Funcs[n.Obj().Name()+"."+c.Method.Name()]
		if fc != nil && fc.IsIface {
			return fc
		}
	}
	// assumed contract of an interface declared outside the module (`iface io.Writer.Write` in any sidecar)
	return e.extIface[n.Obj().Pkg().Name()+"."+n.Obj().Name()+"."+c.Method.Name()]
}

func (e *Engine) findGhost(p *ssa.Package, name string) *GhostFunc {
	if p != nil {
		if pc := e.contracts[p.Pkg.Path()]; pc != nil {
			if g := pc.Ghosts[name]; g != nil {
				return g
			}
		}
	}
	// ghost functions form one namespace across the module
	var keys []string
	for k := range e.contracts {
		keys = append(keys, k)
	}
	sort.Strings(keys)
	for _, k := range keys {
		if g := e.contracts[k].Ghosts[name]; g != nil {
			return g
		}
	}
	return nil
}

// chanInvs returns the channel invariants declared (in any package) for element type t.
func (e *Engine) chanInvs(t types.Type) []*ChanInv {
	var out []*ChanInv
	var keys []string
	for k := range e.contracts {
		keys = append(keys, k)
	}
	sort.Strings(keys)
	ts := types.TypeString(t, nil)
	for _, k := range keys {
		for _, ci := range e.contracts[k].ChanInvs {
			if ci.resolved == ts {
				out = append(out, ci)
			}
		}
	}
	return out
}

func (e *Engine) findDefine(p *ssa.Package, name string) *Define {
	if p == nil {
		return nil
	}
	if pc := e.contracts[p.Pkg.Path()]; pc != nil {
		return pc.Defines[name]
	}
	return nil
}

// ---------------------------------------------------------------- mod sets

func (e *Engine) modSetOf(f *ssa.Function) *ModSet {
	e.modMu.Lock()
	defer e.modMu.Unlock()
	e.ensureModSets()
	if ms, ok := e.modsets[f]; ok {
		return ms
	}
	return newModSet()
}

// ensureModSets computes, once, the transitive write sets of all in-module
// functions as a fixpoint over the call graph (static calls, CHA for
// interface calls, signature matching for calls through function values).
func (e *Engine) ensureModSets() {
	if e.modsDone {
		return
	}
	e.modsDone = true
	local := map[*ssa.Function]*ModSet{}
	edges := map[*ssa.Function]map[*ssa.Function]bool{}
	var fns []*ssa.Function
	for f := range e.allFuncs {
		if e.inModule(f) && len(f.Blocks) > 0 {
			fns = append(fns, f)
		}
	}
	sort.Slice(fns, func(i, j int) bool { return fns[i].String() < fns[j].String() })
	for _, f := range fns {
		ms, ed := e.localModSet(f)
		local[f] = ms
		edges[f] = ed
		full := newModSet()
		full.All = ms.All
		full.merge(ms)
		e.modsets[f] = full
	}
	for changed := true; changed; {
		changed = false
		for _, f := range fns {
			full := e.modsets[f]
			for g := range edges[f] {
				o := e.modsets[g]
				if o == nil {
					continue
				}
				if o.All && !full.All {
					full.All = true
					changed = true
				}
				for k, v := range o.Names {
					if _, ok := full.Names[k]; !ok {
						full.Names[k] = v
						full.Types[k] = o.Types[k]
						changed = true
					}
					if o.NonFresh[k] && !full.NonFresh[k] {
						full.NonFresh[k] = true
						changed = true
					}
				}
			}
		}
	}
}

func (e *Engine) funcsOfType(sig *types.Signature) []*ssa.Function {
	key := types.TypeString(sig, nil)
	if fs, ok := e.sigCache[key]; ok {
		return fs
	}
	want := types.NewSignatureType(nil, nil, nil, sig.Params(), sig.Results(), sig.Variadic())
	var out []*ssa.Function
	for f := range e.allFuncs {
		if !e.inModule(f) || len(f.Blocks) == 0 || f.Signature.Recv() != nil {
			continue
		}
		if f.Synthetic == "package initializer" || f.Name() == "init" || strings.HasPrefix(f.Name(), "init#") {
			continue // initialisers are never called through a function value
		}
		fs := f.Signature
		if types.Identical(types.NewSignatureType(nil, nil, nil, fs.Params(), fs.Results(), fs.Variadic()), want) {
			out = append(out, f)
		}
	}
	sort.Slice(out, func(i, j int) bool { return out[i].String() < out[j].String() })
	e.sigCache[key] = out
	return out
}

// localModSet: heaps written by f's own instructions, and its call edges.
func (e *Engine) localModSet(f *ssa.Function) (*ModSet, map[*ssa.Function]bool) {
	U := NewUniverse()
	ms := newModSet()
	edges := map[*ssa.Function]bool{}
	var addStructFields func(t types.Type)
	addStructFields = func(t types.Type) {
		st := t.Underlying().(*types.Struct)
		for i := 0; i < st.NumFields(); i++ {
			ft := st.Field(i).Type()
			if isStruct(ft) {
				addStructFields(ft)
				continue
			}
			ms.add(fieldHeapName(t, i), arrSort(SInt, U.sortOf(ft)), ft)
		}
	}
	var addStructFieldsFresh func(t types.Type)
	addStructFieldsFresh = func(t types.Type) {
		st := t.Underlying().(*types.Struct)
		for i := 0; i < st.NumFields(); i++ {
			ft := st.Field(i).Type()
			if isStruct(ft) {
				addStructFieldsFresh(ft)
				continue
			}
			ms.addFresh(fieldHeapName(t, i), arrSort(SInt, U.sortOf(ft)), ft)
		}
	}
	// freshBase: the address is (a field path of) an object allocated in this very function
	var freshBase func(v ssa.Value) bool
	freshBase = func(v ssa.Value) bool {
		switch x := v.(type) {
		case *ssa.Alloc:
			return true
		case *ssa.FieldAddr:
			return freshBase(x.X)
		}
		return false
	}
	for _, b := range f.Blocks {
		for _, in := range b.Instrs {
			switch i := in.(type) {
			case *ssa.Store:
				elem := deref(i.Addr.Type())
				switch a := i.Addr.(type) {
				case *ssa.FieldAddr:
					st := deref(a.X.Type())
					ft := st.Underlying().(*types.Struct).Field(a.Field).Type()
					if freshBase(a.X) {
						if isStruct(ft) {
							addStructFieldsFresh(ft)
						} else {
							ms.addFresh(fieldHeapName(st, a.Field), arrSort(SInt, U.sortOf(ft)), ft)
						}
					} else if isStruct(ft) {
						addStructFields(ft)
					} else {
						ms.add(fieldHeapName(st, a.Field), arrSort(SInt, U.sortOf(ft)), ft)
					}
				case *ssa.IndexAddr:
					hn, hs := U.elemHeapT(elem)
					if _, isAlloc := a.X.(*ssa.Alloc); isAlloc {
						ms.addFresh(hn, hs, elem) // element of an array allocated by this function
					} else {
						ms.add(hn, hs, elem)
					}
				case *ssa.Global:
					ms.add("G|"+a.String(), U.sortOf(elem), elem)
				case *ssa.Alloc:
					if a.Heap || isStruct(elem) {
						if isStruct(elem) {
							addStructFieldsFresh(elem)
						} else if !isArray(elem) {
							hn, hs := U.ptrHeapT(elem)
							ms.addFresh(hn, hs, elem) // the function's own (escaping) local: fresh for every caller
						}
					}
				default:
					if isStruct(elem) {
						addStructFields(elem)
					} else {
						hn, hs := U.ptrHeapT(elem)
						ms.add(hn, hs, elem)
					}
				}
			case *ssa.MapUpdate:
				mt := i.Map.Type().Underlying().(*types.Map)
				e.addMapHeaps(ms, U, mt)
			case ssa.CallInstruction:
				c := i.Common()
				if b, ok := c.Value.(*ssa.Builtin); ok && !c.IsInvoke() {
					switch b.Name() {
					case "delete":
						e.addMapHeaps(ms, U, c.Args[0].Type().Underlying().(*types.Map))
					case "append", "copy":
						if sl, ok := c.Args[0].Type().Underlying().(*types.Slice); ok {
							hn, hs := U.elemHeapT(sl.Elem())
							ms.add(hn, hs, sl.Elem())
						}
					}
					continue
				}
				if _, isGo := in.(*ssa.Go); isGo {
					continue // effects of a spawned goroutine are interference, not part of the call (A7)
				}
				if c.IsInvoke() {
					for _, g := range e.implementers(c) {
						edges[g] = true
					}
					continue
				}
				if callee := c.StaticCallee(); callee != nil {
					if e.inModule(callee) {
						edges[callee] = true
					} else {
						// external: may write through slices / pointers passed
						readOnly := callee.Pkg != nil && callee.Pkg.Pkg.Path() == "sync/atomic" && strings.HasPrefix(callee.Name(), "Load")
						for _, a := range c.Args {
							if readOnly {
								break
							}
							// the address of a field, slice element or global handed to an external function
							// (sync/atomic.AddUint32(&s.Current, 1)): the write goes to THAT location
							switch x := a.(type) {
							case *ssa.FieldAddr:
								if st, ok := deref(x.X.Type()).Underlying().(*types.Struct); ok {
									ft := st.Field(x.Field).Type()
									if !isStruct(ft) {
										ms.add(fieldHeapName(deref(x.X.Type()), x.Field), arrSort(SInt, U.sortOf(ft)), ft)
									}
								}
							case *ssa.IndexAddr:
								if pt, ok := x.Type().Underlying().(*types.Pointer); ok {
									hn, hs := U.elemHeapT(pt.Elem())
									ms.add(hn, hs, pt.Elem())
								}
							case *ssa.Global:
								if pt, ok := x.Type().Underlying().(*types.Pointer); ok {
									ms.add("G|"+x.String(), U.sortOf(pt.Elem()), pt.Elem())
								}
							}
							switch t := a.Type().Underlying().(type) {
							case *types.Slice:
								hn, hs := U.elemHeapT(t.Elem())
								if sl, ok := a.(*ssa.Slice); ok {
									if _, isAlloc := sl.X.(*ssa.Alloc); isAlloc {
										ms.addFresh(hn, hs, t.Elem()) // varargs array allocated by the caller itself
										continue
									}
								}
								ms.add(hn, hs, t.Elem())
							case *types.Pointer:
								if isStruct(t.Elem()) && e.inModuleType(t.Elem()) {
									addStructFields(t.Elem())
								} else if !isStruct(t.Elem()) && !isArray(t.Elem()) {
									hn, hs := U.ptrHeapT(t.Elem())
									ms.add(hn, hs, t.Elem())
								}
							}
						}
					}
					continue
				}
				if sig := c.Signature(); sig != nil {
					for _, g := range e.funcsOfType(sig) {
						edges[g] = true
					}
				} else {
					ms.All = true
				}
			}
		}
	}
	return ms, edges
}

// dynamicModSet: union of the mod-sets of all in-module functions of the given type.
func (e *Engine) dynamicModSet(sig *types.Signature) *ModSet {
	e.modMu.Lock()
	defer e.modMu.Unlock()
	e.ensureModSets()
	ms := newModSet()
	for _, g := range e.funcsOfType(sig) {
		if o := e.modsets[g]; o != nil {
			if o.All {
				ms.All = true
			}
			ms.merge(o)
		}
	}
	return ms
}

func (e *Engine) addMapHeaps(ms *ModSet, U *Universe, mt *types.Map) {
	ks, vs := U.sortOf(mt.Key()), U.sortOf(mt.Elem())
	id := typeKey(mt.Key()) + "|" + typeKey(mt.Elem())
	ms.add("MD|"+id, arrSort(SInt, arrSort(ks, SBool)), mt.Key())
	ms.add("MV|"+id, arrSort(SInt, arrSort(ks, vs)), mt.Key(), mt.Elem())
	ms.add("ML|"+id, arrSort(SInt, SInt))
}

func (e *Engine) invokeModSet(c *ssa.CallCommon) *ModSet {
	e.modMu.Lock()
	defer e.modMu.Unlock()
	e.ensureModSets()
	ms := newModSet()
	for _, g := range e.implementers(c) {
		if o := e.modsets[g]; o != nil {
			if o.All {
				ms.All = true
			}
			ms.merge(o)
		}
	}
	return ms
}

func (e *Engine) implementers(c *ssa.CallCommon) []*ssa.Function {
	it := c.Value.Type()
	key := types.TypeString(it, nil) + "." + c.Method.Name()
	if fs, ok := e.implCache[key]; ok {
		return fs
	}
	iface, _ := it.Underlying().(*types.Interface)
	var out []*ssa.Function
	if iface != nil {
		for _, sp := range e.spkgs {
			if !strings.HasPrefix(sp.Pkg.Path(), modulePath) {
				continue
			}
			for _, m := range sp.Members {
				tn, ok := m.(*ssa.Type)
				if !ok {
					continue
				}
				for _, T := range []types.Type{tn.Type(), types.NewPointer(tn.Type())} {
					if _, isI := T.Underlying().(*types.Interface); isI {
						continue
					}
					if types.Implements(T, iface) {
						sel := e.prog.MethodSets.MethodSet(T).Lookup(c.Method.Pkg(), c.Method.Name())
						if sel != nil {
							if f := e.prog.MethodValue(sel); f != nil {
								out = append(out, f)
							}
						}
					}
				}
			}
		}
	}
	e.implCache[key] = out
	return out
}


// LockingFunctions lists every in-module function (closures included) that
// performs a mutex operation; computed from SSA on each run.
func (e *Engine) LockingFunctions() []*ssa.Function {
	var out []*ssa.Function
	for f := range e.allFuncs {
		if !e.inModule(f) || len(f.Blocks) == 0 || f.Synthetic != "" {
			continue
		}
		if p := pkgOf(f); p == nil || strings.Contains(p.Pkg.Path(), "/examples/") || strings.HasSuffix(p.Pkg.Path(), "mock") {
			continue
		}
		if e.autoInline(f) {
			continue // checked at every call site, in the caller's lock state
		}
		if e.throughAutoInlined(f, e.locksDirectly) {
			out = append(out, f)
		}
	}
	sort.Slice(out, func(i, j int) bool { return out[i].String() < out[j].String() })
	return out
}

// CondSignalFunctions lists in-module functions that wake a condition variable declared
// `condlocked` for prop (a call of Signal/Broadcast on the field, or its method value).
func (e *Engine) CondSignalFunctions(prop string) []*ssa.Function {
	decl := map[string]bool{}
	for _, pc := range e.contracts {
		for _, g := range pc.CondLocked {
			if hasProp(g.Props, prop) {
				decl[pc.PkgPath+"."+g.Type+"."+g.Mutex] = true
			}
		}
	}
	if len(decl) == 0 {
		return nil
	}
	fromField := func(v ssa.Value) bool {
		if u, ok := v.(*ssa.UnOp); ok && u.Op == token.MUL {
			v = u.X
		}
		fa, ok := v.(*ssa.FieldAddr)
		if !ok {
			return false
		}
		n := namedOf(fa.X.Type())
		if n == nil || n.Obj().Pkg() == nil {
			return false
		}
		st, ok := n.Underlying().(*types.Struct)
		if !ok {
			return false
		}
		return decl[n.Obj().Pkg().Path()+"."+n.Obj().Name()+"."+st.Field(fa.Field).Name()]
	}
	wakes := func(f *ssa.Function) bool {
		for _, b := range f.Blocks {
			for _, in := range b.Instrs {
				switch x := in.(type) {
				case *ssa.MakeClosure:
					if g, ok := x.Fn.(*ssa.Function); ok && g.Synthetic != "" && len(x.Bindings) == 1 && (g.Name() == "Broadcast$bound" || g.Name() == "Signal$bound") && fromField(x.Bindings[0]) {
						return true
					}
				case ssa.CallInstruction:
					c := x.Common()
					if callee := c.StaticCallee(); callee != nil && len(c.Args) > 0 {
						if s := callee.String(); (s == "(*sync.Cond).Broadcast" || s == "(*sync.Cond).Signal") && fromField(c.Args[0]) {
							return true
						}
					}
				}
			}
		}
		return false
	}
	var out []*ssa.Function
	for f := range e.allFuncs {
		if !e.inModule(f) || len(f.Blocks) == 0 || f.Synthetic != "" || e.autoInline(f) {
			continue
		}
		if p := pkgOf(f); p == nil || strings.Contains(p.Pkg.Path(), "/examples/") || strings.HasSuffix(p.Pkg.Path(), "mock") {
			continue
		}
		if e.throughAutoInlined(f, wakes) {
			out = append(out, f)
		}
	}
	sort.Slice(out, func(i, j int) bool { return out[i].String() < out[j].String() })
	return out
}

// throughAutoInlined: pred holds for f or for an auto-inlined helper f (transitively) calls.
func (e *Engine) throughAutoInlined(f *ssa.Function, pred func(*ssa.Function) bool) bool {
	seen := map[*ssa.Function]bool{}
	var rec func(g *ssa.Function) bool
	rec = func(g *ssa.Function) bool {
		if seen[g] {
			return false
		}
		seen[g] = true
		if pred(g) {
			return true
		}
		for _, b := range g.Blocks {
			for _, in := range b.Instrs {
				if c, ok := in.(*ssa.Call); ok {
					if callee := c.Call.StaticCallee(); callee != nil && e.autoInline(callee) && rec(callee) {
						return true
					}
				}
			}
		}
		return false
	}
	return rec(f)
}

func (e *Engine) locksDirectly(f *ssa.Function) bool {
	{
		found := false
		for _, b := range f.Blocks {
			for _, in := range b.Instrs {
				ci, ok := in.(ssa.CallInstruction)
				if !ok {
					continue
				}
				c := ci.Common()
				if c.IsInvoke() {
					if n := ifaceMethodName(c); n == "(sync.Locker).Lock" || n == "(sync.Locker).Unlock" {
						found = true
					}
					continue
				}
				if callee := c.StaticCallee(); callee != nil {
					switch callee.String() {
					case "(*sync.Mutex).Lock", "(*sync.Mutex).Unlock", "(*sync.RWMutex).Lock", "(*sync.RWMutex).Unlock", "(*sync.RWMutex).RLock", "(*sync.RWMutex).RUnlock", "(*sync.Cond).Wait":
						found = true
					}
				}
			}
		}
		return found
	}
}

// GuardedAccessFunctions lists in-module functions that touch a field declared `guarded[...]`.
func (e *Engine) GuardedAccessFunctions(prop string) []*ssa.Function {
	type key struct{ typ, field string }
	decl := map[key]bool{}
	for _, pc := range e.contracts {
		for _, g := range pc.Guarded {
			if !hasProp(g.Props, prop) {
				continue
			}
			for _, f := range g.Fields {
				decl[key{pc.PkgPath + "." + g.Type, f}] = true
			}
		}
	}
	touches := func(f *ssa.Function) bool {
		found := false
		for _, b := range f.Blocks {
			for _, in := range b.Instrs {
				fa, ok := in.(*ssa.FieldAddr)
				if !ok {
					continue
				}
				n := namedOf(fa.X.Type())
				if n == nil || n.Obj().Pkg() == nil {
					continue
				}
				st, ok := n.Underlying().(*types.Struct)
				if !ok {
					continue
				}
				if decl[key{n.Obj().Pkg().Path() + "." + n.Obj().Name(), st.Field(fa.Field).Name()}] {
					found = true
				}
			}
			// ... or calls a helper whose contract demands a lock ("...WithoutLock")
			for _, in := range b.Instrs {
				if ci, ok := in.(ssa.CallInstruction); ok {
					if callee := ci.Common().StaticCallee(); callee != nil {
						if fc := e.contractOf(callee); fc != nil {
							for _, c := range fc.Requires {
								if isLockPrecondition(c) {
									found = true
								}
							}
						}
					}
				}
			}
		}
		return found
	}
	var out []*ssa.Function
	for f := range e.allFuncs {
		if !e.inModule(f) || len(f.Blocks) == 0 || f.Synthetic != "" {
			continue
		}
		if p := pkgOf(f); p == nil || strings.Contains(p.Pkg.Path(), "/examples/") || strings.HasSuffix(p.Pkg.Path(), "mock") {
			continue
		}
		if fc := e.contractOf(f); fc != nil && fc.Inline {
			continue // lock helpers marked `inline` are checked at every call site, in the caller's lock state
		}
		if e.autoInline(f) {
			continue // likewise (engine.autoInline)
		}
		if e.throughAutoInlined(f, touches) {
			out = append(out, f)
		}
	}
	sort.Slice(out, func(i, j int) bool { return out[i].String() < out[j].String() })
	return out
}

// ---------------------------------------------------------------- selection

// FunctionsFor returns the functions whose contracts carry clauses for prop.
func (e *Engine) FunctionsFor(prop string) []*ssa.Function {
	var out []*ssa.Function
	var keys []string
	for pp := range e.contracts {
		keys = append(keys, pp)
	}
	sort.Strings(keys)
	for _, pp := range keys {
		pc := e.contracts[pp]
		for _, k := range pc.Order {
			fc := pc.Funcs[k]
			if fc.IsIface || fc.Trusted {
				continue
			}
			if !fc.serves(prop) {
				continue
			}
			f := e.funcByKey[pp+" "+k]
			if f == nil {
				continue
			}
			out = append(out, f)
		}
	}
	return out
}

// MissingFunctions lists contract keys that do not resolve to a function (renamed / removed).
func (e *Engine) MissingFunctions(prop string) []string {
	var out []string
	for pp, pc := range e.contracts {
		for _, k := range pc.Order {
			fc := pc.Funcs[k]
			if fc.IsIface || !fc.serves(prop) {
				continue
			}
			if e.funcByKey[pp+" "+k] == nil {
				out = append(out, pp+" "+k)
			}
		}
	}
	sort.Strings(out)
	return out
}

func (fc *FuncContract) serves(prop string) bool {
	has := func(ps []string) bool {
		for _, p := range ps {
			if p == prop {
				return true
			}
		}
		return false
	}
	if has(fc.Props) || has(fc.NoPanicProps) || has(fc.RecoverGuardProps) {
		return true
	}
	for _, ps := range fc.NoPanicKinds {
		if has(ps) {
			return true
		}
	}
	for _, c := range fc.Ensures {
		if has(c.Props) {
			return true
		}
	}
	for _, cs := range fc.Loops {
		for _, c := range cs {
			if has(c.Props) {
				return true
			}
		}
	}
	for _, cs := range fc.Asserts {
		for _, c := range cs {
			if has(c.Props) {
				return true
			}
		}
	}
	return false
}
