package main

import (
	"bufio"
	"fmt"
	"go/parser"
	"go/ast"
	"go/token"
	"go/types"
	"os"
	"sort"
	"strings"
	"sync"

	"golang.org/x/tools/go/packages"
	"golang.org/x/tools/go/ssa"
	"golang.org/x/tools/go/ssa/ssautil"
)

const modulePath = "github.com/aptpod/iscp-go"

func parserParseExpr(s string) (ast.Expr, error) { return parser.ParseExpr(s) }

type Engine struct {
	repo       string
	prog       *ssa.Program
	pkgs       []*packages.Package
	spkgs      map[string]*ssa.Package
	contracts  map[string]*PkgContracts // by package path
	funcByKey  map[string]*ssa.Function // pkgpath + " " + relstring
	noSafety   bool
	lockChecks bool
	srcCache   map[string][]string
	srcMu      sync.Mutex
	modsets    map[*ssa.Function]*ModSet
	modMu      sync.Mutex
	allFuncs   map[*ssa.Function]bool
	globalInit map[*ssa.Global]*ssa.Function
	implCache  map[string][]*ssa.Function
	loadErrs   []string
}

func cleanEnv() []string {
	var out []string
	for _, e := range os.Environ() {
		if strings.HasPrefix(e, "GOSUMDB=") || strings.HasPrefix(e, "GOTOOLCHAIN=") || strings.HasPrefix(e, "GOFLAGS=") {
			continue
		}
		out = append(out, e)
	}
	return append(out, "GOFLAGS=-mod=mod", "GOPROXY=off")
}

func LoadEngine(repo string) (*Engine, error) {
	cfg := &packages.Config{Mode: packages.LoadAllSyntax, Dir: repo, Env: cleanEnv()}
	pkgs, err := packages.Load(cfg, "./...")
	if err != nil {
		return nil, err
	}
	e := &Engine{repo: repo, pkgs: pkgs, spkgs: map[string]*ssa.Package{}, contracts: map[string]*PkgContracts{}, funcByKey: map[string]*ssa.Function{},
		srcCache: map[string][]string{}, modsets: map[*ssa.Function]*ModSet{}, globalInit: map[*ssa.Global]*ssa.Function{}, implCache: map[string][]*ssa.Function{}, lockChecks: true}
	for _, p := range pkgs {
		for _, er := range p.Errors {
			e.loadErrs = append(e.loadErrs, er.Error())
		}
	}
	if len(e.loadErrs) > 0 {
		return e, fmt.Errorf("package load errors: %s", strings.Join(e.loadErrs, "; "))
	}
	prog, spkgs := ssautil.AllPackages(pkgs, ssa.InstantiateGenerics|ssa.GlobalDebug)
	prog.Build()
	e.prog = prog
	for i, sp := range spkgs {
		if sp == nil {
			continue
		}
		e.spkgs[sp.Pkg.Path()] = sp
		dir := ""
		if len(pkgs[i].GoFiles) > 0 {
			dir = pkgs[i].GoFiles[0][:strings.LastIndex(pkgs[i].GoFiles[0], "/")]
		}
		if dir != "" {
			if _, err := os.Stat(dir + "/contracts_verif.go"); err == nil {
				pc, err := ParseContracts(dir, sp.Pkg.Path())
				if err != nil {
					return e, err
				}
				e.contracts[sp.Pkg.Path()] = pc
			}
		}
	}
	e.allFuncs = ssautil.AllFunctions(prog)
	for f := range e.allFuncs {
		if f.Pkg != nil && e.inModule(f) {
			e.funcByKey[f.Pkg.Pkg.Path()+" "+relFuncName(f)] = f
		} else if f.Parent() != nil && e.inModule(f) {
			e.funcByKey[pkgOf(f).Pkg.Path()+" "+relFuncName(f)] = f
		}
	}
	// package-level function variables initialised once with a function (timeNow = time.Now) are NOT resolved: tests replace them.
	return e, nil
}

func pkgOf(f *ssa.Function) *ssa.Package {
	for f != nil {
		if f.Pkg != nil {
			return f.Pkg
		}
		if f.Parent() != nil {
			f = f.Parent()
			continue
		}
		if f.Origin() != nil {
			f = f.Origin()
			continue
		}
		return nil
	}
	return nil
}

func (e *Engine) inModule(f *ssa.Function) bool {
	p := pkgOf(f)
	return p != nil && strings.HasPrefix(p.Pkg.Path(), modulePath)
}

func (e *Engine) inModuleType(t types.Type) bool {
	n := namedOf(t)
	return n != nil && n.Obj().Pkg() != nil && strings.HasPrefix(n.Obj().Pkg().Path(), modulePath)
}

func (e *Engine) moduleGlobal(heap string) bool {
	return strings.HasPrefix(heap, "G|"+modulePath)
}

func (e *Engine) pureGlobal(g *ssa.Global) bool {
	if g.Pkg == nil {
		return false
	}
	pc := e.contracts[g.Pkg.Pkg.Path()]
	return pc != nil && pc.Pure[g.Name()]
}

func (e *Engine) autoInline(f *ssa.Function) bool { return false }

func (e *Engine) srcLine(p token.Position) string {
	if p.Filename == "" {
		return ""
	}
	e.srcMu.Lock()
	defer e.srcMu.Unlock()
	ls, ok := e.srcCache[p.Filename]
	if !ok {
		f, err := os.Open(p.Filename)
		if err == nil {
			sc := bufio.NewScanner(f)
			sc.Buffer(make([]byte, 1<<20), 1<<20)
			for sc.Scan() {
				ls = append(ls, sc.Text())
			}
			f.Close()
		}
		e.srcCache[p.Filename] = ls
	}
	if p.Line-1 < len(ls) && p.Line > 0 {
		return strings.TrimSpace(ls[p.Line-1])
	}
	return ""
}

func (e *Engine) contractOf(f *ssa.Function) *FuncContract {
	p := pkgOf(f)
	if p == nil {
		return nil
	}
	pc := e.contracts[p.Pkg.Path()]
	if pc == nil {
		return nil
	}
	return pc.Funcs[relFuncName(f)]
}

func (e *Engine) ifaceContract(c *ssa.CallCommon) *FuncContract {
	n := namedOf(c.Value.Type())
	if n == nil || n.Obj().Pkg() == nil {
		return nil
	}
	pc := e.contracts[n.Obj().Pkg().Path()]
	if pc == nil {
		return nil
	}
	fc := pc.Funcs[n.Obj().Name()+"."+c.Method.Name()]
	if fc != nil && fc.IsIface {
		return fc
	}
	return nil
}

func (e *Engine) findGhost(p *ssa.Package, name string) *GhostFunc {
	if p == nil {
		return nil
	}
	if pc := e.contracts[p.Pkg.Path()]; pc != nil {
		return pc.Ghosts[name]
	}
	return nil
}

func (e *Engine) findDefine(p *ssa.Package, name string) *Define {
	if p == nil {
		return nil
	}
	if pc := e.contracts[p.Pkg.Path()]; pc != nil {
		return pc.Defines[name]
	}
	return nil
}

// ---------------------------------------------------------------- mod sets

func (e *Engine) modSetOf(f *ssa.Function) *ModSet {
	e.modMu.Lock()
	defer e.modMu.Unlock()
	return e.modSetRec(f, map[*ssa.Function]bool{})
}

func (e *Engine) modSetRec(f *ssa.Function, visiting map[*ssa.Function]bool) *ModSet {
	if ms, ok := e.modsets[f]; ok {
		return ms
	}
	if visiting[f] {
		return &ModSet{Names: map[string]Sort{}}
	}
	visiting[f] = true
	U := NewUniverse()
	ms := &ModSet{Names: map[string]Sort{}}
	add := func(o *ModSet) {
		if o.All {
			ms.All = true
		}
		for k, v := range o.Names {
			ms.Names[k] = v
		}
	}
	var addStructFields func(t types.Type)
	addStructFields = func(t types.Type) {
		st := t.Underlying().(*types.Struct)
		for i := 0; i < st.NumFields(); i++ {
			ft := st.Field(i).Type()
			if isStruct(ft) {
				addStructFields(ft)
				continue
			}
			ms.Names[fieldHeapName(t, i)] = arrSort(SInt, U.sortOf(ft))
		}
	}
	if !e.inModule(f) || len(f.Blocks) == 0 {
		return ms
	}
	for _, b := range f.Blocks {
		for _, in := range b.Instrs {
			switch i := in.(type) {
			case *ssa.Store:
				elem := deref(i.Addr.Type())
				switch a := i.Addr.(type) {
				case *ssa.FieldAddr:
					st := deref(a.X.Type())
					ft := st.Underlying().(*types.Struct).Field(a.Field).Type()
					if isStruct(ft) {
						addStructFields(ft)
					} else {
						ms.Names[fieldHeapName(st, a.Field)] = arrSort(SInt, U.sortOf(ft))
					}
				case *ssa.IndexAddr:
					es := U.sortOf(elem)
					ms.Names["E|"+es] = arrSort(SInt, arrSort(SInt, es))
				case *ssa.Global:
					ms.Names["G|"+a.String()] = U.sortOf(elem)
				case *ssa.Alloc:
					if a.Heap || isStruct(elem) {
						if isStruct(elem) {
							addStructFields(elem)
						} else if !isArray(elem) {
							es := U.sortOf(elem)
							ms.Names["P|"+es] = arrSort(SInt, es)
						}
					}
				default:
					if isStruct(elem) {
						addStructFields(elem)
					} else {
						es := U.sortOf(elem)
						ms.Names["P|"+es] = arrSort(SInt, es)
					}
				}
			case *ssa.MapUpdate:
				mt := i.Map.Type().Underlying().(*types.Map)
				e.addMapHeaps(ms, U, mt)
			case ssa.CallInstruction:
				c := i.Common()
				if b, ok := c.Value.(*ssa.Builtin); ok && !c.IsInvoke() {
					switch b.Name() {
					case "delete":
						e.addMapHeaps(ms, U, c.Args[0].Type().Underlying().(*types.Map))
					case "append", "copy":
						if sl, ok := c.Args[0].Type().Underlying().(*types.Slice); ok {
							es := U.sortOf(sl.Elem())
							ms.Names["E|"+es] = arrSort(SInt, arrSort(SInt, es))
						}
					}
					continue
				}
				if _, isGo := in.(*ssa.Go); isGo {
					continue // effects of a spawned goroutine are interference, not part of the call (A7)
				}
				if c.IsInvoke() {
					add(e.invokeModSetRec(c, visiting))
					continue
				}
				if callee := c.StaticCallee(); callee != nil {
					if e.inModule(callee) {
						add(e.modSetRec(callee, visiting))
					} else {
						// external: may write through slices / pointers passed
						for _, a := range c.Args {
							switch t := a.Type().Underlying().(type) {
							case *types.Slice:
								es := U.sortOf(t.Elem())
								ms.Names["E|"+es] = arrSort(SInt, arrSort(SInt, es))
							case *types.Pointer:
								if isStruct(t.Elem()) && e.inModuleType(t.Elem()) {
									addStructFields(t.Elem())
								} else if !isStruct(t.Elem()) && !isArray(t.Elem()) {
									es := U.sortOf(t.Elem())
									ms.Names["P|"+es] = arrSort(SInt, es)
								}
							}
						}
					}
					continue
				}
				ms.All = true
			}
		}
	}
	for _, af := range f.AnonFuncs {
		_ = af // closures are accounted for when called; a closure stored and called later is a dynamic call (All)
	}
	delete(visiting, f)
	e.modsets[f] = ms
	return ms
}

func (e *Engine) addMapHeaps(ms *ModSet, U *Universe, mt *types.Map) {
	ks, vs := U.sortOf(mt.Key()), U.sortOf(mt.Elem())
	id := ks + "|" + vs
	ms.Names["MD|"+id] = arrSort(SInt, arrSort(ks, SBool))
	ms.Names["MV|"+id] = arrSort(SInt, arrSort(ks, vs))
	ms.Names["ML|"+id] = arrSort(SInt, SInt)
}

func (e *Engine) invokeModSet(c *ssa.CallCommon) *ModSet {
	e.modMu.Lock()
	defer e.modMu.Unlock()
	return e.invokeModSetRec(c, map[*ssa.Function]bool{})
}

func (e *Engine) implementers(c *ssa.CallCommon) []*ssa.Function {
	it := c.Value.Type()
	key := types.TypeString(it, nil) + "." + c.Method.Name()
	if fs, ok := e.implCache[key]; ok {
		return fs
	}
	iface, _ := it.Underlying().(*types.Interface)
	var out []*ssa.Function
	if iface != nil {
		for _, sp := range e.spkgs {
			if !strings.HasPrefix(sp.Pkg.Path(), modulePath) {
				continue
			}
			for _, m := range sp.Members {
				tn, ok := m.(*ssa.Type)
				if !ok {
					continue
				}
				for _, T := range []types.Type{tn.Type(), types.NewPointer(tn.Type())} {
					if _, isI := T.Underlying().(*types.Interface); isI {
						continue
					}
					if types.Implements(T, iface) {
						sel := e.prog.MethodSets.MethodSet(T).Lookup(c.Method.Pkg(), c.Method.Name())
						if sel != nil {
							if f := e.prog.MethodValue(sel); f != nil {
								out = append(out, f)
							}
						}
					}
				}
			}
		}
	}
	e.implCache[key] = out
	return out
}

func (e *Engine) invokeModSetRec(c *ssa.CallCommon, visiting map[*ssa.Function]bool) *ModSet {
	ms := &ModSet{Names: map[string]Sort{}}
	for _, f := range e.implementers(c) {
		o := e.modSetRec(f, visiting)
		if o.All {
			ms.All = true
		}
		for k, v := range o.Names {
			ms.Names[k] = v
		}
	}
	return ms
}

// ---------------------------------------------------------------- selection

// FunctionsFor returns the functions whose contracts carry clauses for prop.
func (e *Engine) FunctionsFor(prop string) []*ssa.Function {
	var out []*ssa.Function
	var keys []string
	for pp := range e.contracts {
		keys = append(keys, pp)
	}
	sort.Strings(keys)
	for _, pp := range keys {
		pc := e.contracts[pp]
		for _, k := range pc.Order {
			fc := pc.Funcs[k]
			if fc.IsIface || fc.Trusted {
				continue
			}
			if !fc.serves(prop) {
				continue
			}
			f := e.funcByKey[pp+" "+k]
			if f == nil {
				continue
			}
			out = append(out, f)
		}
	}
	return out
}

// MissingFunctions lists contract keys that do not resolve to a function (renamed / removed).
func (e *Engine) MissingFunctions(prop string) []string {
	var out []string
	for pp, pc := range e.contracts {
		for _, k := range pc.Order {
			fc := pc.Funcs[k]
			if fc.IsIface || !fc.serves(prop) {
				continue
			}
			if e.funcByKey[pp+" "+k] == nil {
				out = append(out, pp+" "+k)
			}
		}
	}
	sort.Strings(out)
	return out
}

func (fc *FuncContract) serves(prop string) bool {
	has := func(ps []string) bool {
		for _, p := range ps {
			if p == prop {
				return true
			}
		}
		return false
	}
	if has(fc.Props) || has(fc.NoPanicProps) {
		return true
	}
	for _, c := range fc.Ensures {
		if has(c.Props) {
			return true
		}
	}
	for _, cs := range fc.Loops {
		for _, c := range cs {
			if has(c.Props) {
				return true
			}
		}
	}
	return false
}
