package main

import (
	"fmt"
	"os"
	"sort"
	"strconv"
	"strings"

	"golang.org/x/tools/go/ssa"
)

// Closures are addressed by go/ssa's ordinals (`F$3`, `F$2$1`), and an ordinal moves when a closure
// is inserted or removed before it. A closure contract usually says what the closure calls
// (`after call connectWire: …`, `assert call Upstream).resume: …`); an anchor that matches nothing is
// an error anyway. rekeyClosures uses that: when the closure a contract names no longer contains a
// call for every call/go anchor of the contract, and exactly one other closure of the same top-level
// function does, the contract is moved to that closure. Contracts of the same function without
// call anchors follow when all moved ones moved by the same distance. Nothing else changes: no
// match, or more than one, leaves the contract where it is (and it fails as before).
func (e *Engine) rekeyClosures() {
	if os.Getenv("GOVC_NOREKEY") != "" {
		return
	}
	for pp, pc := range e.contracts {
		type move struct{ from, to string }
		var moves []move
		byTop := map[string][]string{}
		for _, k := range pc.Order {
			if i := strings.Index(k, "$"); i > 0 && !pc.Funcs[k].Implied {
				byTop[k[:i]] = append(byTop[k[:i]], k)
			}
		}
		for top, keys := range byTop {
			tf := e.funcByKey[pp+" "+top]
			if tf == nil {
				continue
			}
			var nested []*ssa.Function
			var walk func(f *ssa.Function)
			walk = func(f *ssa.Function) {
				for _, a := range f.AnonFuncs {
					nested = append(nested, a)
					walk(a)
				}
			}
			walk(tf)
			calls := map[*ssa.Function][]string{}
			for _, g := range nested {
				calls[g] = e.callNames(g, 0)
			}
			matches := func(g *ssa.Function, pats []string) bool {
				for _, p := range pats {
					ok := false
					for _, w := range calls[g] {
						if anchorMatch(w, p) {
							ok = true
							break
						}
					}
					if !ok {
						return false
					}
				}
				return true
			}
			moved := map[string]string{}
			for _, k := range keys {
				pats := callPatterns(pc.Funcs[k])
				if len(pats) == 0 {
					continue
				}
				cur := e.funcByKey[pp+" "+k]
				if cur != nil && matches(cur, pats) {
					continue
				}
				var cand []*ssa.Function
				for _, g := range nested {
					if g != cur && matches(g, pats) {
						cand = append(cand, g)
					}
				}
				if len(cand) == 1 {
					moved[k] = relFuncName(cand[0])
				}
			}
			if len(moved) == 0 {
				continue
			}
			// contracts without call anchors follow a uniform shift of their siblings (same prefix, last ordinal)
			delta, uniform := 0, true
			first := true
			for from, to := range moved {
				d, ok := ordinalShift(from, to)
				if !ok {
					uniform = false
					break
				}
				if first {
					delta, first = d, false
				} else if d != delta {
					uniform = false
				}
			}
			if uniform && delta != 0 {
				for _, k := range keys {
					if _, ok := moved[k]; ok || len(callPatterns(pc.Funcs[k])) > 0 {
						continue
					}
					if to, ok := shiftKey(k, delta); ok && e.funcByKey[pp+" "+to] != nil {
						moved[k] = to
					}
				}
			}
			for from, to := range moved {
				moves = append(moves, move{from, to})
			}
		}
		if len(moves) == 0 {
			continue
		}
		sort.Slice(moves, func(i, j int) bool { return moves[i].from < moves[j].from })
		// a target key that carries a contract which is not itself moving away blocks the move
		moving := map[string]bool{}
		for _, m := range moves {
			moving[m.from] = true
		}
		newFuncs := map[string]*FuncContract{}
		for k, fc := range pc.Funcs {
			if !moving[k] {
				newFuncs[k] = fc
			}
		}
		rename := map[string]string{}
		for _, m := range moves {
			if _, taken := newFuncs[m.to]; taken {
				newFuncs[m.from] = pc.Funcs[m.from] // stay
				continue
			}
			fc := pc.Funcs[m.from]
			e.rekeyed = append(e.rekeyed, fmt.Sprintf("%s: contract of %s applied to %s (matched by its call anchors)", pp, m.from, m.to))
			fc.Key = m.to
			newFuncs[m.to] = fc
			rename[m.from] = m.to
		}
		pc.Funcs = newFuncs
		for i, k := range pc.Order {
			if to, ok := rename[k]; ok {
				pc.Order[i] = to
			}
		}
	}
	sort.Strings(e.rekeyed)
}

// callPatterns: the call/go anchors a contract mentions (asserts, forbids excluded, and ghost updates).
func callPatterns(fc *FuncContract) []string {
	seen := map[string]bool{}
	var out []string
	add := func(a string) {
		f := strings.SplitN(a, " ", 2)
		if len(f) != 2 || (f[0] != "call" && f[0] != "go") {
			return
		}
		p := strings.TrimSpace(f[1])
		if strings.HasPrefix(p, "dynamic ") || p == "" || seen[p] {
			return
		}
		seen[p] = true
		out = append(out, p)
	}
	for a, cs := range fc.Asserts {
		for _, c := range cs {
			if c.Kind != "forbid" {
				add(a)
				break
			}
		}
	}
	for _, g := range fc.Afters {
		add(g.Anchor)
	}
	sort.Strings(out)
	return out
}

// callNames: the anchor names of the calls (call, go, defer) in g and in the auto-inlined helpers it calls.
func (e *Engine) callNames(g *ssa.Function, depth int) []string {
	var out []string
	for _, b := range g.Blocks {
		for _, in := range b.Instrs {
			ci, ok := in.(ssa.CallInstruction)
			if !ok {
				continue
			}
			c := ci.Common()
			out = append(out, callAnchorName(c, nil))
			if callee := c.StaticCallee(); callee != nil && depth < 3 && callee.Parent() == nil && e.autoInline(callee) {
				out = append(out, e.callNames(callee, depth+1)...)
			}
		}
	}
	return out
}

// ordinalShift: from and to differ only in ONE ordinal of the closure path, by how much.
func ordinalShift(from, to string) (int, bool) {
	a, b := strings.Split(from, "$"), strings.Split(to, "$")
	if len(a) != len(b) || a[0] != b[0] {
		return 0, false
	}
	d, n := 0, 0
	for i := 1; i < len(a); i++ {
		if a[i] == b[i] {
			continue
		}
		x, e1 := strconv.Atoi(a[i])
		y, e2 := strconv.Atoi(b[i])
		if e1 != nil || e2 != nil || i != 1 {
			return 0, false
		}
		d, n = y-x, n+1
	}
	return d, n == 1
}

// shiftKey moves the first ordinal of a closure key by delta.
func shiftKey(k string, delta int) (string, bool) {
	a := strings.Split(k, "$")
	if len(a) < 2 {
		return "", false
	}
	x, err := strconv.Atoi(a[1])
	if err != nil || x+delta < 1 {
		return "", false
	}
	a[1] = strconv.Itoa(x + delta)
	return strings.Join(a, "$"), true
}
