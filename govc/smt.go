package main

import (
	"fmt"
	"go/types"
	"sort"
	"strings"
)

// Term is an SMT-LIB 2 s-expression.
type Term = string

// Sort is an SMT-LIB 2 sort expression.
type Sort = string

const (
	SInt   Sort = "Int"
	SBool  Sort = "Bool"
	SStr   Sort = "Str"
	SSlice Sort = "Slice"
	SIface Sort = "Iface"
	SReal  Sort = "Real"
	SUnit  Sort = "Unit"
)

func sx(op string, args ...Term) Term {
	if len(args) == 0 {
		return op
	}
	return "(" + op + " " + strings.Join(args, " ") + ")"
}
func and(ts ...Term) Term {
	var out []Term
	for _, t := range ts {
		if t == "true" || t == "" {
			continue
		}
		if t == "false" {
			return "false"
		}
		out = append(out, t)
	}
	switch len(out) {
	case 0:
		return "true"
	case 1:
		return out[0]
	}
	return sx("and", out...)
}
func or(ts ...Term) Term {
	var out []Term
	for _, t := range ts {
		if t == "false" || t == "" {
			continue
		}
		if t == "true" {
			return "true"
		}
		out = append(out, t)
	}
	switch len(out) {
	case 0:
		return "false"
	case 1:
		return out[0]
	}
	return sx("or", out...)
}
func not(t Term) Term {
	switch t {
	case "true":
		return "false"
	case "false":
		return "true"
	}
	return sx("not", t)
}
func imp(a, b Term) Term {
	if a == "true" {
		return b
	}
	if a == "false" || b == "true" {
		return "true"
	}
	return sx("=>", a, b)
}
func eq(a, b Term) Term {
	if a == b {
		return "true"
	}
	return sx("=", a, b)
}
func ite(c, a, b Term) Term {
	if c == "true" {
		return a
	}
	if c == "false" {
		return b
	}
	if a == b {
		return a
	}
	return sx("ite", c, a, b)
}
func sel(a, i Term) Term      { return sx("select", a, i) }
func store(a, i, v Term) Term { return sx("store", a, i, v) }
func num(n int64) Term {
	if n < 0 {
		return fmt.Sprintf("(- %d)", -n)
	}
	return fmt.Sprintf("%d", n)
}
func arrSort(k, v Sort) Sort { return "(Array " + k + " " + v + ")" }

// sanitize turns an arbitrary string into an SMT simple-symbol fragment.
func sanitize(s string) string {
	var b strings.Builder
	for _, r := range s {
		switch {
		case r >= 'a' && r <= 'z', r >= 'A' && r <= 'Z', r >= '0' && r <= '9', r == '_', r == '.', r == '!', r == '$', r == '@':
			b.WriteRune(r)
		case r == '*':
			b.WriteString("ptr.")
		case r == '/':
			b.WriteString(".")
		case r == ' ':
		default:
			b.WriteString("_")
		}
	}
	return b.String()
}

// Universe holds everything that is shared by all VCs of one run: sort
// declarations, struct datatypes, type tags, string constants.
type Universe struct {
	sortDecls   []string          // in dependency order
	sortOfType  map[string]Sort   // key: types.TypeString
	structInfo  map[Sort]*StructInfo
	arrInfo     map[Sort]*ArrInfo
	tags        map[string]int    // dynamic type tag numbers
	tagTypes    []types.Type
	strConsts   map[string]string // literal -> symbol
	strOrder    []string
	boxFns      map[Sort]bool
	funDecls    map[string]string // name -> declaration
	funOrder    []string
	fieldIDs    map[string]int
	axioms      []string
	arrAx       map[string]bool
}

type StructInfo struct {
	Sort   Sort
	Ctor   string
	Fields []string // accessor names
	FSorts []Sort
	T      *types.Struct
	Name   string
}
type ArrInfo struct {
	Sort Sort
	Elem Sort
	N    int64
}

func NewUniverse() *Universe {
	return &Universe{sortOfType: map[string]Sort{}, structInfo: map[Sort]*StructInfo{}, arrInfo: map[Sort]*ArrInfo{},
		tags: map[string]int{}, strConsts: map[string]string{}, boxFns: map[Sort]bool{}, funDecls: map[string]string{}, fieldIDs: map[string]int{}, arrAx: map[string]bool{}}
}

// useNonNilCount declares the counting function behind the spec builtin `nonnilcount` and its axioms.
func (u *Universe) useNonNilCount() {
	if _, ok := u.funDecls["nncnt"]; ok {
		return
	}
	arr := arrSort(SInt, SSlice)
	u.declFun("nncnt", fmt.Sprintf("(declare-fun nncnt (%s Int Int) Int)", arr))
	nn := func(t string) string { return "(ite (= (sarr " + t + ") 0) 0 1)" }
	u.axioms = append(u.axioms,
		fmt.Sprintf("(assert (forall ((a %s) (i Int) (v Slice) (off Int) (n Int)) (! (=> (and (<= off i) (< i (+ off n))) (= (nncnt (store a i v) off n) (+ (nncnt a off n) (- %s %s)))) :pattern ((nncnt (store a i v) off n)))))", arr, nn("v"), nn("(select a i)")),
		fmt.Sprintf("(assert (forall ((a %s) (off Int) (n Int)) (! (=> (>= n 0) (and (<= 0 (nncnt a off n)) (<= (nncnt a off n) n))) :pattern ((nncnt a off n)))))", arr),
		fmt.Sprintf("(assert (forall ((a %s) (off Int) (n Int) (j Int)) (! (=> (and (>= n 0) (= (nncnt a off n) n) (<= off j) (< j (+ off n))) (not (= (sarr (select a j)) 0))) :pattern ((nncnt a off n) (select a j)))))", arr),
		fmt.Sprintf("(assert (forall ((a %s) (off Int) (n Int)) (! (=> (forall ((j Int)) (=> (and (<= off j) (< j (+ off n))) (= (sarr (select a j)) 0))) (= (nncnt a off n) 0)) :pattern ((nncnt a off n)))))", arr))
}

// usePrefixLen declares the prefix-sum function behind the spec builtin `prefixlen` with its two
// defining equations (primitive recursion on the index: a conservative definition, not an assumption
// about the program) and the frame fact that it depends only on the entries below the index.
func (u *Universe) usePrefixLen() {
	if _, ok := u.funDecls["psum"]; ok {
		return
	}
	arr := arrSort(SInt, SSlice)
	u.declFun("psum", fmt.Sprintf("(declare-fun psum (%s Int Int) Int)", arr))
	u.axioms = append(u.axioms,
		fmt.Sprintf("(assert (forall ((a %s) (off Int) (i Int)) (! (=> (<= i 0) (= (psum a off i) 0)) :pattern ((psum a off i)))))", arr),
		fmt.Sprintf("(assert (forall ((a %s) (off Int) (i Int)) (! (=> (>= i 0) (= (psum a off (+ i 1)) (+ (psum a off i) (slen (select a (+ off i)))))) :pattern ((psum a off (+ i 1))) :pattern ((psum a off i) (select a (+ off i))))))", arr))
}

func (u *Universe) declFun(name string, decl string) {
	if _, ok := u.funDecls[name]; ok {
		return
	}
	u.funDecls[name] = decl
	u.funOrder = append(u.funOrder, name)
}

func (u *Universe) tagOf(t types.Type) int {
	k := canonType(t)
	if n, ok := u.tags[k]; ok {
		return n
	}
	n := len(u.tags) + 1
	u.tags[k] = n
	u.tagTypes = append(u.tagTypes, t)
	return n
}

func (u *Universe) strConst(lit string) Term {
	if s, ok := u.strConsts[lit]; ok {
		return s
	}
	s := fmt.Sprintf("str!%d", len(u.strConsts))
	u.strConsts[lit] = s
	u.strOrder = append(u.strOrder, lit)
	return s
}

func (u *Universe) fieldID(name string) int {
	if n, ok := u.fieldIDs[name]; ok {
		return n
	}
	n := len(u.fieldIDs) + 1
	u.fieldIDs[name] = n
	return n
}

// sortOf maps a Go type to its SMT sort, declaring datatypes on demand.
func (u *Universe) sortOf(t types.Type) Sort {
	key := types.TypeString(t, nil)
	if s, ok := u.sortOfType[key]; ok {
		return s
	}
	s := u.sortOf1(t)
	u.sortOfType[key] = s
	return s
}

func (u *Universe) sortOf1(t types.Type) Sort {
	switch tt := t.(type) {
	case *types.Named:
		if st, ok := tt.Underlying().(*types.Struct); ok {
			return u.structSort(tt.Obj().Pkg().Path()+"."+tt.Obj().Name()+typeArgsString(tt), st)
		}
		return u.sortOf(tt.Underlying())
	case *types.Alias:
		return u.sortOf(types.Unalias(tt))
	case *types.Basic:
		switch {
		case tt.Info()&types.IsBoolean != 0:
			return SBool
		case tt.Info()&types.IsInteger != 0:
			return SInt
		case tt.Info()&types.IsString != 0:
			return SStr
		case tt.Info()&types.IsFloat != 0:
			return SReal
		case tt.Kind() == types.UnsafePointer:
			return SInt
		case tt.Kind() == types.UntypedNil:
			return SInt
		}
		return SInt
	case *types.Pointer, *types.Map, *types.Chan, *types.Signature:
		return SInt
	case *types.Slice:
		return SSlice
	case *types.Interface:
		return SIface
	case *types.Struct:
		return u.structSort("anon."+sanitize(types.TypeString(tt, nil)), tt)
	case *types.Array:
		es := u.sortOf(tt.Elem())
		name := fmt.Sprintf("A!%d!%s", tt.Len(), sanitize(es))
		if _, ok := u.arrInfo[name]; !ok {
			u.arrInfo[name] = &ArrInfo{Sort: name, Elem: es, N: tt.Len()}
			u.sortDecls = append(u.sortDecls, fmt.Sprintf("(declare-sort %s 0)", name))
			u.declFun("aget!"+name, fmt.Sprintf("(declare-fun aget!%s (%s Int) %s)", name, name, es))
			u.declFun("aset!"+name, fmt.Sprintf("(declare-fun aset!%s (%s Int %s) %s)", name, name, es, name))
		}
		return name
	case *types.Tuple:
		return "Tuple"
	case *types.TypeParam:
		return SIface
	}
	return SInt
}

func typeArgsString(n *types.Named) string {
	ta := n.TypeArgs()
	if ta == nil || ta.Len() == 0 {
		return ""
	}
	var parts []string
	for i := 0; i < ta.Len(); i++ {
		parts = append(parts, types.TypeString(ta.At(i), nil))
	}
	return "[" + strings.Join(parts, ",") + "]"
}

func (u *Universe) structSort(name string, st *types.Struct) Sort {
	sname := "S!" + sanitize(name)
	if _, ok := u.structInfo[sname]; ok {
		return sname
	}
	info := &StructInfo{Sort: sname, Ctor: "mk!" + sname, T: st, Name: name}
	u.structInfo[sname] = info // before recursion (no value recursion possible in Go)
	var fdecl []string
	for i := 0; i < st.NumFields(); i++ {
		fs := u.sortOf(st.Field(i).Type())
		acc := fmt.Sprintf("%s!%s", sname, sanitize(st.Field(i).Name()))
		if st.Field(i).Name() == "_" {
			acc = fmt.Sprintf("%s!blank%d", sname, i)
		}
		info.Fields = append(info.Fields, acc)
		info.FSorts = append(info.FSorts, fs)
		fdecl = append(fdecl, fmt.Sprintf("(%s %s)", acc, fs))
	}
	if len(fdecl) == 0 {
		u.sortDecls = append(u.sortDecls, fmt.Sprintf("(declare-datatypes ((%s 0)) (((%s))))", sname, info.Ctor))
	} else {
		u.sortDecls = append(u.sortDecls, fmt.Sprintf("(declare-datatypes ((%s 0)) (((%s %s))))", sname, info.Ctor, strings.Join(fdecl, " ")))
	}
	return sname
}

// typeKey is the canonical name of a Go type used to partition heaps (type-based alias separation).
func typeKey(t types.Type) string {
	return sanitize(canonType(t))
}

// canonType prints a type with every alias resolved (types.TypeString keeps alias names,
// which would split one Go type over several heaps).
func canonType(t types.Type) string {
	t = types.Unalias(t)
	switch tt := t.(type) {
	case *types.Basic:
		switch tt.Kind() {
		case types.Uint8:
			return "uint8"
		case types.Int32, types.UntypedRune:
			return "int32"
		}
		return tt.Name()
	case *types.Pointer:
		return "*" + canonType(tt.Elem())
	case *types.Slice:
		return "[]" + canonType(tt.Elem())
	case *types.Array:
		return fmt.Sprintf("[%d]%s", tt.Len(), canonType(tt.Elem()))
	case *types.Map:
		return "map[" + canonType(tt.Key()) + "]" + canonType(tt.Elem())
	case *types.Chan:
		return "chan " + canonType(tt.Elem())
	case *types.Named:
		if tt.Obj().Pkg() != nil {
			return tt.Obj().Pkg().Path() + "." + tt.Obj().Name() + typeArgsString(tt)
		}
		return tt.Obj().Name()
	}
	return types.TypeString(t, nil)
}

func (u *Universe) elemHeapT(t types.Type) (string, Sort) {
	return "E|" + typeKey(t), arrSort(SInt, arrSort(SInt, u.sortOf(t)))
}
func (u *Universe) ptrHeapT(t types.Type) (string, Sort) {
	return "P|" + typeKey(t), arrSort(SInt, u.sortOf(t))
}

// arrSetUsed adds the read-over-write axioms for an array sort (only when a
// store into such an array value actually occurs, to keep queries quantifier-free).
func (u *Universe) arrSetUsed(name Sort) {
	if u.arrAx[name] {
		return
	}
	u.arrAx[name] = true
	es := u.arrInfo[name].Elem
	u.axioms = append(u.axioms,
		fmt.Sprintf("(assert (forall ((a %s) (i Int) (v %s)) (! (= (aget!%s (aset!%s a i v) i) v) :pattern ((aset!%s a i v)))))", name, es, name, name, name),
		fmt.Sprintf("(assert (forall ((a %s) (i Int) (j Int) (v %s)) (! (=> (not (= i j)) (= (aget!%s (aset!%s a i v) j) (aget!%s a j))) :pattern ((aget!%s (aset!%s a i v) j)))))", name, es, name, name, name, name, name))
}

// box / unbox for non-pointer dynamic values held in interfaces.
func (u *Universe) box(s Sort, v Term) Term {
	switch s {
	case SInt:
		return v
	case SBool:
		return ite(v, "1", "0")
	}
	u.ensureBox(s)
	return sx("box!"+sanitize(s), v)
}
func (u *Universe) unbox(s Sort, v Term) Term {
	switch s {
	case SInt:
		return v
	case SBool:
		return eq(v, "1")
	}
	u.ensureBox(s)
	return sx("unbox!"+sanitize(s), v)
}
func (u *Universe) ensureBox(s Sort) {
	if u.boxFns[s] {
		return
	}
	u.boxFns[s] = true
	n := sanitize(s)
	u.declFun("box!"+n, fmt.Sprintf("(declare-fun box!%s (%s) Int)", n, s))
	u.declFun("unbox!"+n, fmt.Sprintf("(declare-fun unbox!%s (Int) %s)", n, s))
}

// Prelude renders the shared declarations.
func (u *Universe) Prelude() string {
	var b strings.Builder
	b.WriteString("(set-option :produce-models true)\n(set-logic ALL)\n")
	b.WriteString("(declare-sort Str 0)\n(declare-sort Unit 0)\n")
	b.WriteString("(declare-datatypes ((Slice 0)) (((mkS (sarr Int) (soff Int) (slen Int) (scap Int)))))\n")
	b.WriteString("(declare-datatypes ((Iface 0)) (((mkI (itag Int) (ival Int)))))\n")
	b.WriteString("(declare-fun strlen (Str) Int)\n(declare-fun strcat (Str Str) Str)\n(declare-fun strlt (Str Str) Bool)\n")
	b.WriteString("(declare-fun faddr (Int Int) Int)\n(declare-fun fbase (Int) Int)\n(declare-fun ffid (Int) Int)\n")
	// element address of slice position i: uninterpreted so that quantifier triggers can match it
	b.WriteString("(declare-fun eidx (Int Int) Int)\n(assert (forall ((o Int) (i Int)) (! (= (eidx o i) (+ o i)) :pattern ((eidx o i)))))\n")
	b.WriteString("(define-fun godiv ((a Int) (b Int)) Int (ite (>= a 0) (ite (> b 0) (div a b) (- (div a (- b)))) (ite (> b 0) (- (div (- a) b)) (div (- a) (- b)))))\n")
	b.WriteString("(define-fun gomod ((a Int) (b Int)) Int (- a (* b (godiv a b))))\n")
	b.WriteString("(declare-fun band (Int Int) Int)\n(declare-fun bor (Int Int) Int)\n(declare-fun bxor (Int Int) Int)\n(declare-fun bshl (Int Int) Int)\n(declare-fun bshr (Int Int) Int)\n(declare-fun bandnot (Int Int) Int)\n")
	for _, d := range u.sortDecls {
		b.WriteString(d + "\n")
	}
	for _, n := range u.funOrder {
		b.WriteString(u.funDecls[n] + "\n")
	}
	for _, lit := range u.strOrder {
		fmt.Fprintf(&b, "(declare-const %s Str)\n(assert (= (strlen %s) %d))\n", u.strConsts[lit], u.strConsts[lit], len(lit))
	}
	if len(u.strOrder) > 1 {
		var ss []string
		for _, lit := range u.strOrder {
			ss = append(ss, u.strConsts[lit])
		}
		sort.Strings(ss)
		b.WriteString("(assert (distinct " + strings.Join(ss, " ") + "))\n")
	}
	for _, a := range u.axioms {
		b.WriteString(a + "\n")
	}
	return b.String()
}
