package main

import (
	"flag"
	"fmt"
	"os"
	"sort"
	"strings"
	"sync"
	"time"

	"golang.org/x/tools/go/ssa"
)

func main() {
	repo := flag.String("repo", "/repo", "repository root")
	prop := flag.String("prop", "", "property id")
	tier := flag.String("tier", "quick", "quick|thorough")
	out := flag.String("out", "", "evidence file")
	dump := flag.String("dump", "", "directory for SMT files")
	only := flag.String("func", "", "only functions whose name contains this")
	verbose := flag.Bool("v", false, "verbose")
	known := flag.String("known", "/verif/KNOWN_FINDINGS.txt", "known findings file")
	replays := flag.String("replays", "/verif/replays", "replay directory")
	replayFile := flag.String("replay-file", "", "re-run the replay recorded in this file")
	debug := flag.Bool("debug", false, "print every obligation instead of the check report")
	flag.Parse()
	seed := 0
	if s := os.Getenv("VERIF_SEED"); s != "" {
		fmt.Sscanf(s, "%d", &seed)
	}
	t0 := time.Now()
	if *replayFile != "" {
		os.Exit(replayFromFile(*repo, *replayFile))
	}
	eng, err := LoadEngine(*repo)
	if err != nil {
		fmt.Fprintln(os.Stderr, "ENGINE-ERROR:", err)
		os.Exit(2)
	}
	tmpDump := ""
	if *dump == "" {
		d, _ := os.MkdirTemp("", "govc-smt-")
		*dump = d
		tmpDump = d
	}
	run := &Run{eng: eng, prop: *prop, tier: *tier, out: *out, dump: *dump, only: *only, verbose: *verbose, knownFile: *known, replayDir: *replays, t0: t0, debug: *debug || *verbose, seed: seed}
	rc := run.Main()
	if tmpDump != "" {
		os.RemoveAll(tmpDump)
	}
	os.Exit(rc)
}

type Run struct {
	eng       *Engine
	prop      string
	tier      string
	out       string
	dump      string
	only      string
	verbose   bool
	knownFile string
	replayDir string
	t0        time.Time
	vcs       []*VC
	debug     bool
	seed      int
}

func (r *Run) buildAndSolve(fns []*ssa.Function) {
	quickMs, raceS := 30000, 60
	if r.tier == "thorough" {
		quickMs, raceS = 60000, 120
	}
	var mu sync.Mutex
	var wg sync.WaitGroup
	sem := make(chan struct{}, 8)
	for _, f := range fns {
		if r.only != "" && !strings.Contains(relFuncName(f), r.only) {
			continue
		}
		wg.Add(1)
		go func(f *ssa.Function) {
			defer wg.Done()
			sem <- struct{}{}
			defer func() { <-sem }()
			vc, err := r.eng.BuildVC(f, r.prop)
			if err != nil {
				fmt.Fprintln(os.Stderr, "ENGINE-ERROR:", err)
				vc = newVC(r.eng, f, nil, nil)
				vc.note("%v", err)
				vc.obls = append(vc.obls, &Obl{Name: relFuncName(f) + "/vcgen", Kind: "engine", Func: f.String(), Status: "engine-error", Src: err.Error()})
			} else {
				vc.cross = r.tier == "thorough"
				vc.Solve(r.dump, quickMs, raceS)
				if fc := r.eng.contractOf(f); fc != nil && len(fc.AltLoops) > 0 && vc.anyOpen() {
					// the loop was rewritten in a way the primary invariant does not follow: the
					// contract's alternative invariant set is an equally valid argument
					if vc2, err2 := r.eng.BuildVCAlt(f, r.prop); err2 == nil {
						vc2.cross = vc.cross
						vc2.Solve(r.dump, quickMs, raceS)
						if os.Getenv("GOVC_DBG_ALT") != "" {
							for _, o := range vc2.obls {
								if !o.Cover && o.Status != "discharged" && o.Status != "unclaimed" {
									fmt.Fprintln(os.Stderr, "ALT-OPEN", o.Name, o.Status)
								}
							}
						}
						if !vc2.anyOpen() {
							vc2.note("proved with the alternative loop invariant set of the contract (`loop N altinvariant`)")
							vc = vc2
						}
					}
				}
				if fc := r.eng.contractOf(f); err == nil && fc != nil && len(fc.Loops) > 0 && vc.anyOpen() && os.Getenv("GOVC_NOLOOPSHIFT") == "" {
					// a loop was inserted or removed before the loops that carry invariants: the same
					// invariant sets, applied to the loops one or two positions further down (or up)
					for _, d := range []int{1, -1, 2} {
						vc2, err2 := r.eng.BuildVCShift(f, r.prop, d)
						if err2 != nil {
							continue
						}
						vc2.cross = vc.cross
						vc2.Solve(r.dump, quickMs, raceS)
						allUsed := true // a shift that leaves an invariant set without a loop would drop a claim
						for k, cs := range fc.Loops {
							if len(cs) > 0 && !vc2.loopSetsUsed[k] {
								allUsed = false
							}
						}
						if allUsed && !vc2.anyOpen() && !vc2.anyUnresolved() {
							vc2.note("proved with the loop invariants of the contract applied to the loops %+d positions from the written ordinals (a loop was inserted or removed before them)", d)
							vc = vc2
							break
						}
					}
				}
			}
			mu.Lock()
			r.vcs = append(r.vcs, vc)
			mu.Unlock()
		}(f)
	}
	if r.prop != "C08" {
		for _, lm := range r.eng.LemmasFor(r.prop) {
			if r.only != "" && !strings.Contains(lm.Name, r.only) {
				continue
			}
			wg.Add(1)
			go func(lm *Lemma) {
				defer wg.Done()
				sem <- struct{}{}
				defer func() { <-sem }()
				vc, err := r.eng.BuildLemmaVC(lm, r.prop)
				if err != nil {
					fmt.Fprintln(os.Stderr, "ENGINE-ERROR:", err)
					return
				}
				vc.cross = r.tier == "thorough"
				vc.Solve(r.dump, quickMs, raceS)
				mu.Lock()
				r.vcs = append(r.vcs, vc)
				mu.Unlock()
			}(lm)
		}
	}
	wg.Wait()
	sort.Slice(r.vcs, func(i, j int) bool { return r.vcs[i].fn.String() < r.vcs[j].fn.String() })
}

// anyOpen: some obligation of the function is not discharged (covers: not covered).
func (vc *VC) anyOpen() bool {
	for _, o := range vc.obls {
		if !o.Cover && o.Status != "discharged" && o.Status != "unclaimed" {
			return true
		}
	}
	return false
}

// anyUnresolved: some clause of the contract could not be stated (an obligation named unresolved…).
func (vc *VC) anyUnresolved() bool {
	for _, o := range vc.obls {
		if strings.Contains(o.Name, "/unresolved") {
			return true
		}
	}
	return false
}

func (r *Run) Main() int {
	if ms := os.Getenv("GOVC_MODSET"); ms != "" {
		for k, f := range r.eng.funcByKey {
			if strings.Contains(k, ms) {
				m := r.eng.modSetOf(f)
				fmt.Println("MODSET", k, "all=", m.All)
				var names []string
				for n := range m.Names {
					if m.NonFresh[n] {
						names = append(names, n)
					}
				}
				sort.Strings(names)
				for _, n := range names {
					fmt.Println("   nonfresh", n)
				}
			}
		}
		return 0
	}
	if os.Getenv("GOVC_AUTOINLINE") == "list" {
		r.eng.autoInline(nil)
		var ns []string
		for f := range r.eng.autoSet {
			ns = append(ns, f.String())
		}
		sort.Strings(ns)
		for _, n := range ns {
			fmt.Println("AUTOINLINE", n)
		}
		return 0
	}
	fns := r.eng.FunctionsFor(r.prop)
	if r.prop == "C08" {
		r.eng.sweepMode = true
		fns = unionFuncs(r.eng.LockingFunctions(), fns)
	}
	fns = unionFuncs(r.eng.CondSignalFunctions(r.prop), fns)
	if r.prop == "C09" {
		r.eng.sweepMode = true
		fns = unionFuncs(r.eng.GuardedAccessFunctions("C09"), fns)
	}
	r.buildAndSolve(fns)
	if !r.debug {
		return r.Report()
	}
	bad := 0
	for _, vc := range r.vcs {
		if vc.lemma != nil {
			fmt.Printf("== lemma %s (%d obligations)\n", vc.lemma.Name, len(vc.obls))
		} else {
			fmt.Printf("== %s (%d obligations)\n", vc.fn, len(vc.obls))
		}
		for _, o := range vc.sortedObls() {
			if r.verbose || (o.Status != "discharged" && o.Status != "covered") {
				fmt.Printf("  %-11s %-60s %s  [%s %.2fs] %v\n", o.Status, o.Name, o.Src, o.Solver, o.TimeS, o.Props)
			}
			if o.Status != "discharged" && o.Status != "covered" {
				bad++
				if r.verbose && o.Model != "" {
					fmt.Println(indent(trunc(o.Model, 3000)))
				}
			}
		}
		var notes []string
		for n := range vc.notes {
			notes = append(notes, n)
		}
		sort.Strings(notes)
		for _, n := range notes {
			fmt.Println("  note:", n)
		}
	}
	fmt.Printf("total %.1fs, %d not discharged\n", time.Since(r.t0).Seconds(), bad)
	if bad > 0 {
		return 1
	}
	return 0
}

// unionFuncs: the functions a sweep selects from SSA plus those whose contract carries a clause for the property.
func unionFuncs(a, b []*ssa.Function) []*ssa.Function {
	seen := map[*ssa.Function]bool{}
	var out []*ssa.Function
	for _, f := range append(append([]*ssa.Function{}, a...), b...) {
		if !seen[f] {
			seen[f] = true
			out = append(out, f)
		}
	}
	sort.Slice(out, func(i, j int) bool { return out[i].String() < out[j].String() })
	return out
}

func indent(s string) string { return "      " + strings.ReplaceAll(s, "\n", "\n      ") }
func trunc(s string, n int) string {
	if len(s) > n {
		return s[:n] + "..."
	}
	return s
}
