package main

import (
	"fmt"
	"go/ast"
	"go/constant"
	"go/token"
	"go/types"
	"strings"

	"golang.org/x/tools/go/packages"
	"golang.org/x/tools/go/ssa"
)

// checkInitial decides an `initial X.f... == c` fact by evaluating the package-level declaration of X:
// the initialiser expression (descending through composite literals by field name, and through
// package-level variables that are themselves initialised by constants) must be a constant equal to
// c, and no function of the module other than the package initialiser may assign X or that field.
// It returns ok and a human-readable reason.
func (e *Engine) checkInitial(pkgPath string, c *Clause) (bool, string) {
	be, ok := c.Expr.(*ast.BinaryExpr)
	if !ok || be.Op != token.EQL {
		return false, "initial fact must have the form X.f == constant"
	}
	var pkg *packages.Package
	for _, p := range e.pkgs {
		if p.PkgPath == pkgPath {
			pkg = p
		}
	}
	if pkg == nil {
		return false, "package not loaded"
	}
	// left-hand side: ident or selector chain
	var path []string
	x := be.X
	for {
		if se, ok := x.(*ast.SelectorExpr); ok {
			path = append([]string{se.Sel.Name}, path...)
			x = se.X
			continue
		}
		break
	}
	id, ok := x.(*ast.Ident)
	if !ok {
		return false, "left-hand side is not a package variable"
	}
	obj, _ := pkg.Types.Scope().Lookup(id.Name).(*types.Var)
	if obj == nil {
		return false, "no package-level variable " + id.Name
	}
	// (evaluated at the variable's declaration, so that the file's imports - time.Second - are in scope)
	want, err := types.Eval(pkg.Fset, pkg.Types, obj.Pos(), types.ExprString(be.Y))
	if err != nil || want.Value == nil {
		return false, fmt.Sprintf("right-hand side is not a constant expression (%v)", err)
	}
	got, why := e.initialValue(pkg, obj, path, 0)
	if got == nil {
		return false, why
	}
	if !constant.Compare(got, token.EQL, want.Value) {
		return false, fmt.Sprintf("initialised with %s, not %s", got.ExactString(), want.Value.ExactString())
	}
	if where := e.reassigned(pkgPath, id.Name, path); where != "" {
		return false, "assigned outside the package initialiser in " + where
	}
	return true, "initialiser evaluates to " + got.ExactString()
}

func (e *Engine) initialValue(pkg *packages.Package, v *types.Var, path []string, depth int) (constant.Value, string) {
	if depth > 4 {
		return nil, "initialiser chain too deep"
	}
	var init ast.Expr
	for _, f := range pkg.Syntax {
		for _, d := range f.Decls {
			gd, ok := d.(*ast.GenDecl)
			if !ok || gd.Tok != token.VAR {
				continue
			}
			for _, sp := range gd.Specs {
				vs := sp.(*ast.ValueSpec)
				for i, n := range vs.Names {
					if pkg.TypesInfo.Defs[n] == v {
						if len(vs.Values) == len(vs.Names) {
							init = vs.Values[i]
						} else if len(vs.Values) == 0 {
							return zeroConst(fieldType(v.Type(), path)), ""
						} else {
							return nil, "multi-value initialiser"
						}
					}
				}
			}
		}
	}
	if init == nil {
		return nil, "declaration of " + v.Name() + " not found"
	}
	return e.evalInit(pkg, init, v.Type(), path, depth)
}

func (e *Engine) evalInit(pkg *packages.Package, x ast.Expr, t types.Type, path []string, depth int) (constant.Value, string) {
	x = ast.Unparen(x)
	if u, ok := x.(*ast.UnaryExpr); ok && u.Op == token.AND && len(path) > 0 {
		x = ast.Unparen(u.X)
	}
	if len(path) == 0 {
		if tv, ok := pkg.TypesInfo.Types[x]; ok && tv.Value != nil {
			return tv.Value, ""
		}
		switch y := x.(type) {
		case *ast.Ident:
			if w, ok := pkg.TypesInfo.Uses[y].(*types.Var); ok && w.Parent() == pkg.Types.Scope() {
				return e.initialValue(pkg, w, nil, depth+1)
			}
		case *ast.BinaryExpr:
			l, why := e.evalInit(pkg, y.X, nil, nil, depth+1)
			if l == nil {
				return nil, why
			}
			r, why := e.evalInit(pkg, y.Y, nil, nil, depth+1)
			if r == nil {
				return nil, why
			}
			switch y.Op {
			case token.ADD, token.SUB, token.MUL:
				return constant.BinaryOp(l, y.Op, r), ""
			case token.QUO:
				if constant.Sign(r) != 0 {
					return constant.BinaryOp(constant.ToInt(l), token.QUO_ASSIGN, constant.ToInt(r)), ""
				}
			}
			return nil, "operator " + y.Op.String() + " in an initialiser is not evaluated"
		case *ast.CallExpr: // conversion T(x)
			if len(y.Args) == 1 {
				if tv, ok := pkg.TypesInfo.Types[y.Fun]; ok && tv.IsType() {
					return e.evalInit(pkg, y.Args[0], tv.Type, nil, depth+1)
				}
			}
		}
		return nil, "initialiser " + types.ExprString(x) + " is not a constant"
	}
	cl, ok := x.(*ast.CompositeLit)
	if !ok {
		if y, ok := x.(*ast.Ident); ok {
			if w, ok := pkg.TypesInfo.Uses[y].(*types.Var); ok && w.Parent() == pkg.Types.Scope() {
				return e.initialValue(pkg, w, path, depth+1)
			}
		}
		return nil, "initialiser " + types.ExprString(x) + " is not a composite literal"
	}
	for _, el := range cl.Elts {
		kv, ok := el.(*ast.KeyValueExpr)
		if !ok {
			return nil, "positional composite literal"
		}
		if k, ok := kv.Key.(*ast.Ident); ok && k.Name == path[0] {
			return e.evalInit(pkg, kv.Value, fieldType(pkg.TypesInfo.TypeOf(cl), path[:1]), path[1:], depth)
		}
	}
	// field not mentioned: zero value
	return zeroConst(fieldType(pkg.TypesInfo.TypeOf(cl), path)), ""
}

func fieldType(t types.Type, path []string) types.Type {
	for _, f := range path {
		if t == nil {
			return nil
		}
		if p, ok := t.Underlying().(*types.Pointer); ok {
			t = p.Elem()
		}
		st, ok := t.Underlying().(*types.Struct)
		if !ok {
			return nil
		}
		t = nil
		for i := 0; i < st.NumFields(); i++ {
			if st.Field(i).Name() == f {
				t = st.Field(i).Type()
			}
		}
	}
	return t
}

func zeroConst(t types.Type) constant.Value {
	if t == nil {
		return nil
	}
	if b, ok := t.Underlying().(*types.Basic); ok {
		switch {
		case b.Info()&types.IsBoolean != 0:
			return constant.MakeBool(false)
		case b.Info()&types.IsString != 0:
			return constant.MakeString("")
		case b.Info()&types.IsNumeric != 0:
			return constant.MakeInt64(0)
		}
	}
	return nil
}

// reassigned reports a function (other than package initialisers) that stores to the variable or to the field path.
func (e *Engine) reassigned(pkgPath, name string, path []string) string {
	for f := range e.allFuncs {
		if !e.inModule(f) || f.Synthetic == "package initializer" || f.Name() == "init" && f.Parent() == nil && f.Signature.Recv() == nil && strings.HasPrefix(f.Synthetic, "package init") {
			continue
		}
		for _, b := range f.Blocks {
			for _, in := range b.Instrs {
				st, ok := in.(*ssa.Store)
				if !ok {
					continue
				}
				addr := st.Addr
				var fields []string
				for {
					fa, ok := addr.(*ssa.FieldAddr)
					if !ok {
						break
					}
					if s, ok := deref(fa.X.Type()).Underlying().(*types.Struct); ok {
						fields = append([]string{s.Field(fa.Field).Name()}, fields...)
					}
					addr = fa.X
				}
				g, ok := addr.(*ssa.Global)
				if !ok || g.Name() != name || g.Pkg == nil || g.Pkg.Pkg.Path() != pkgPath {
					continue
				}
				// a store to the variable itself, to a prefix of the path, or to the path
				pre := true
				for i := range fields {
					if i >= len(path) || fields[i] != path[i] {
						pre = false
					}
				}
				if pre {
					return f.String()
				}
			}
		}
	}
	return ""
}
