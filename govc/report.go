package main

import (
	"encoding/json"
	"fmt"
	"os"
	"path/filepath"
	"sort"
	"strings"
	"time"
)

type knownFinding struct {
	kind       string // known | fixed
	prop       string
	obligation string
	text       string
}

func loadKnown(path string) []knownFinding {
	data, err := os.ReadFile(path)
	if err != nil {
		return nil
	}
	var out []knownFinding
	for _, l := range strings.Split(string(data), "\n") {
		l = strings.TrimSpace(l)
		if l == "" || strings.HasPrefix(l, "#") {
			continue
		}
		var k knownFinding
		switch {
		case strings.HasPrefix(l, "known:"):
			k.kind = "known"
			l = strings.TrimSpace(strings.TrimPrefix(l, "known:"))
		case strings.HasPrefix(l, "fixed:"):
			k.kind = "fixed"
			l = strings.TrimSpace(strings.TrimPrefix(l, "fixed:"))
		default:
			continue
		}
		for _, f := range strings.Fields(l) {
			if strings.HasPrefix(f, "property=") {
				k.prop = strings.TrimPrefix(f, "property=")
			}
			if strings.HasPrefix(f, "obligation=") {
				k.obligation = strings.TrimPrefix(f, "obligation=")
			}
		}
		k.text = l
		out = append(out, k)
	}
	return out
}

func hasProp(ps []string, p string) bool {
	for _, x := range ps {
		if x == p {
			return true
		}
	}
	return false
}

type evidence struct {
	PropertyID  string                 `json:"property_id"`
	Tier        string                 `json:"tier"`
	Seed        int                    `json:"seed"`
	Level       string                 `json:"level"`
	Coverage    map[string]interface{} `json:"coverage"`
	Assumptions []string               `json:"assumptions"`
	WallS       float64                `json:"wall_s"`
	Violations  int                    `json:"violations"`
}

var standingAssumptions = []string{
	"T1: go/packages + go/ssa (x/tools v0.29.0) lower /repo's source correctly and the gc compiler agrees with that lowering",
	"T2: govc's SMT semantics of the go/ssa subset (DESIGN.md section 2)",
	"T3: soundness of z3 4.8.12, z3 5.1.0, cvc5 1.0",
	"A2: external and contract-less interface calls do not write the heaps of the packages under contract (except through slices/pointers passed to them)",
	"A3: Go mutex / channel / memory-model semantics",
	"A4: strings are abstract values with length and equality",
	"A5: 64-bit integer arithmetic treated as mathematical; widths <= 32 bits exact",
	"A6: range over a map visits each key of the current domain once",
	"A7: interference by other goroutines is modelled for fields declared `guarded` (forgotten at method-call boundaries without the lock, at Cond.Wait and when a released lock is re-acquired; only rely conditions and monitor invariants survive); all other shared state is treated as stable within one function activation",
	"A9: floating point: values handed out by the library are exact reals (time.Duration.Seconds() = d/1e9 exactly), every +,-,*,/ the verified code itself performs on floats is the real result up to one rounding (relative error <= 2^-52), comparisons and conversions are exact; time.Time values modelled by their Unix nanosecond count",
}

// Report prints the result lines, writes evidence and returns the exit code.
func (r *Run) Report() int {
	known := loadKnown(r.knownFile)
	prop := r.prop
	var total, discharged, covers, coversOK, bounded int
	bySolver := map[string]int{}
	solverTime := 0.0
	var samples []map[string]interface{}
	var funcs []string
	externals := map[string]bool{}
	inlined := map[string]bool{}
	notes := map[string]bool{}
	axioms := map[string]bool{}
	var violations []string
	var knownSeen []string
	engineErr := false
	crossVerdicts := map[string]int{}
	for _, m := range r.eng.MissingFunctions(prop) {
		// a contract that no longer resolves against the code
		name := "unresolved-function/" + strings.ReplaceAll(m, " ", ":")
		violations = append(violations, r.violation(name, &Obl{Name: name, Kind: "unresolved", Src: "contract names a function that does not exist in the current tree: " + m, Status: "unresolved"}))
	}
	// `initial` facts of the property: decided by evaluating the package-level declarations
	for pp, pc := range r.eng.contracts {
		for i, c := range pc.Initials {
			if !hasProp(c.Props, prop) {
				continue
			}
			ok, why := r.eng.checkInitial(pp, c)
			name := fmt.Sprintf("%s/initial#%d@%s", strings.TrimPrefix(pp, modulePath), i+1, strings.ReplaceAll(c.Text, " ", ""))
			total++
			o := &Obl{Name: name, Kind: "initial", Src: c.Text + "  -- " + why, Status: "discharged", Solver: "initialiser-evaluator", Props: c.Props}
			if ok {
				discharged++
				bySolver["initialiser-evaluator"]++
			} else {
				o.Status = "failed"
				violations = append(violations, r.violation(name, o))
			}
		}
	}
	for _, vc := range r.vcs {
		funcs = append(funcs, vc.fn.String())
		for k := range vc.externals {
			externals[k] = true
		}
		for k := range vc.inlined {
			inlined[k] = true
		}
		for k := range vc.notes {
			notes[relFuncName(vc.fn)+": "+k] = true
		}
		for _, a := range vc.axiomsUsed {
			axioms["axiom: "+a] = true
		}
		for _, a := range vc.globalsUsed {
			axioms["assumed global fact: "+a] = true
		}
		anyFailed := false
		for _, o := range vc.sortedObls() {
			if !o.Cover && o.Status != "discharged" {
				anyFailed = true
			}
		}
		for _, o := range vc.sortedObls() {
			if !hasProp(o.Props, prop) {
				continue
			}
			if o.Kind == "blockcover" {
				if o.Status == "vacuous" {
					fmt.Printf("BLOCK-UNREACHABLE %s  %s:%d\n", o.Name, shortFile(o.Pos.Filename), o.Pos.Line)
				}
				continue
			}
			if o.Cover && o.Status == "vacuous" && o.Rel != nil && o.Rel.Status != "covered" {
				covers++
				continue // the call site itself is unreachable: nothing became vacuous at this call
			}
			if o.Cover && anyFailed && o.Status == "vacuous" {
				// a failed obligation is assumed afterwards, which can make later points unreachable:
				// vacuity is only meaningful when everything before it was proved
				covers++
				continue
			}
			if o.Cover {
				covers++
				switch o.Status {
				case "covered":
					coversOK++
				case "vacuous":
					fmt.Printf("ENGINE-ERROR: vacuous contract: %s is unsatisfiable (precondition/invariant contradictory or no return reachable)\n", o.Name)
					engineErr = true
				}
				continue
			}
			total++
			solverTime += o.TimeS
			for _, c := range o.Cross {
				crossVerdicts[c[strings.LastIndex(c, ":")+1:]]++
			}
			if o.Status == "discharged" {
				discharged++
				bySolver[o.Solver]++
				if len(samples) < 12 {
					samples = append(samples, map[string]interface{}{"obligation": o.Name, "kind": o.Kind, "clause": trunc(o.Src, 200), "status": o.Status, "solver": o.Solver, "time_s": round3(o.TimeS), "goal_bytes": len(o.Goal)})
				}
				continue
			}
			if o.Status == "solver-disagreement" {
				fmt.Printf("ENGINE-ERROR: solver disagreement on %s: %s\n", o.Name, trunc(o.Model, 200))
				engineErr = true
				continue
			}
			if o.Status == "engine-error" {
				fmt.Printf("ENGINE-ERROR: %s: %s\n", o.Name, o.Src)
				engineErr = true
				continue
			}
			// failed / undecided / unresolved
			matched := false
			for _, k := range known {
				if k.kind == "known" && k.prop == prop && k.obligation == o.Name {
					matched = true
					fmt.Printf("KNOWN-FINDING: %s\n", k.text) // k.text starts with property=<id>
					knownSeen = append(knownSeen, o.Name)
				}
			}
			if matched {
				continue
			}
			violations = append(violations, r.violation(o.Name, o))
		}
	}
	// contracts relied on at call sites but not verified in this run, and entry preconditions
	verified := map[string]bool{}
	for _, vc := range r.vcs {
		if vc.lemma == nil {
			if p := pkgOf(vc.fn); p != nil {
				verified[p.Pkg.Path()+" "+relFuncName(vc.fn)] = true
			}
		}
	}
	for _, vc := range r.vcs {
		for k, fc := range vc.usedContracts {
			if verified[k] || fc.Trusted {
				continue
			}
			switch {
			case fc.IsIface:
				axioms["interface contract assumed for every implementation: "+fc.Key] = true
			case len(fc.Props) > 0:
				axioms["contract of "+fc.Key+" used at call sites; its body is verified by the check(s) "+strings.Join(fc.Props, ",")+", not in this run"] = true
			default:
				axioms["contract of "+fc.Key+" ASSUMED at call sites (no check verifies its body)"] = true
			}
		}
		if vc.lemma != nil {
			continue
		}
		if fc := r.eng.contractOf(vc.fn); fc != nil {
			for _, c := range fc.Requires {
				axioms["precondition assumed at entry of "+relFuncName(vc.fn)+" (owed by its callers; checked only at call sites inside functions under contract): "+c.Text] = true
			}
		}
	}
	sort.Strings(funcs)
	for _, v := range violations {
		fmt.Println(v)
	}
	wall := time.Since(r.t0).Seconds()
	ev := evidence{PropertyID: prop, Tier: r.tier, Seed: r.seed, Level: "proof", WallS: round3(wall), Violations: len(violations)}
	ev.Assumptions = append([]string{}, standingAssumptions...)
	ev.Assumptions = append(ev.Assumptions, sortedKeys(axioms)...)
	for _, k := range sortedKeys(externals) {
		ev.Assumptions = append(ev.Assumptions, "unverified callee (assumed contract / mod-set havoc): "+k)
	}
	ev.Coverage = map[string]interface{}{
		"obligations":              total,
		"discharged":               discharged,
		"checker_cmd":              fmt.Sprintf("/verif/bin/govc -repo %s -prop %s -tier %s (VCs generated from go/ssa of the working tree; z3-new 5.1.0 first, then z3 4.8.12 and cvc5 1.0 raced on anything not unsat)", r.eng.repo, prop, r.tier),
		"trusted_base":             []string{"go/ssa lowering (x/tools v0.29.0)", "govc VC generator", "z3 5.1.0 / z3 4.8.12 / cvc5 1.0", "assumed contracts of external functions (see assumptions)"},
		"functions_under_contract": funcs,
		"by_solver":                bySolver,
		"solver_time_s":            round3(solverTime),
		"bounded":                  bounded,
		"cross_solver_verdicts":    crossVerdicts,
		"cover_checks":             map[string]int{"run": covers, "satisfiable_or_unknown": coversOK},
		"inlined":                  sortedKeys(inlined),
		"engine_notes":             sortedKeys(notes),
		"known_findings_seen":      knownSeen,
		"samples":                  samples,
		"integers":                 "mathematical Int with exact wrap-around for widths <= 32 bits; 64-bit treated as mathematical (A5)",
	}
	if len(samples) == 0 {
		ev.Coverage["samples"] = []string{"no obligation discharged in this run"}
	}
	if len(r.eng.rekeyed) > 0 {
		ev.Coverage["closure_contracts_rekeyed"] = r.eng.rekeyed
		for _, n := range r.eng.rekeyed {
			fmt.Println("note: closure ordinals moved -", n)
		}
	}
	if r.out != "" {
		os.MkdirAll(filepath.Dir(r.out), 0o755)
		data, _ := json.MarshalIndent(ev, "", " ")
		os.WriteFile(r.out, data, 0o644)
	}
	fmt.Printf("property=%s tier=%s functions=%d obligations=%d discharged=%d violations=%d known=%d wall=%.1fs\n", prop, r.tier, len(funcs), total, discharged, len(violations), len(knownSeen), wall)
	if engineErr {
		return 2
	}
	if total == 0 {
		fmt.Println("ENGINE-ERROR: no obligation generated for this property (vacuous check)")
		return 2
	}
	if len(violations) > 0 {
		return 1
	}
	return 0
}

func sortedKeys(m map[string]bool) []string {
	var out []string
	for k := range m {
		out = append(out, k)
	}
	sort.Strings(out)
	return out
}

func round3(f float64) float64 { return float64(int(f*1000+0.5)) / 1000 }

// violation writes the replay file and returns the VIOLATION line.
func (r *Run) violation(name string, o *Obl) string {
	dir := filepath.Join(r.replayDir, r.prop)
	os.MkdirAll(dir, 0o755)
	file := filepath.Join(dir, sanitize(name)+".json")
	rep := map[string]interface{}{
		"property":   r.prop,
		"obligation": name,
		"kind":       o.Kind,
		"function":   o.Func,
		"position":   o.Pos.String(),
		"clause":     o.Src,
		"status":     o.Status,
		"solver":     o.Solver,
		"solver_output": trunc(o.Model, 20000),
	}
	suffix := "no-failing-input-found"
	if res := r.tryReplay(o, rep); res != "" {
		suffix = res
	}
	data, _ := json.MarshalIndent(rep, "", " ")
	os.WriteFile(file, data, 0o644)
	return fmt.Sprintf("VIOLATION property=%s replay=%s obligation=%s %s", r.prop, file, name, suffix)
}
