package main

import (
	"os"
	"fmt"
	"go/token"
	"go/types"
	"sort"
	"strings"

	"golang.org/x/tools/go/ssa"
)

// Val is a symbolic Go value.
type Val struct {
	T     Term
	S     Sort
	Typ   types.Type
	Tup   []*Val
	Addr  bool          // spec values: T is the address of a struct value of type Typ
	PureFn bool
	IsNil bool          // spec values: untyped nil
	Fn    *ssa.Function // statically known function value
	Binds []*Val        // closure bindings (when Fn is a closure)
}

// State is the symbolic heap at a program point: heap name -> current term.
type State struct {
	heaps  map[string]Term
	defers []*deferEntry
}

type deferEntry struct {
	guard Term
	call  *ssa.CallCommon
	args  []*Val // evaluated at defer time
	fnval *Val
	instr *ssa.Defer
	fr    *Frame
}

func (s *State) clone() *State {
	n := &State{heaps: make(map[string]Term, len(s.heaps))}
	for k, v := range s.heaps {
		n.heaps[k] = v
	}
	n.defers = append([]*deferEntry(nil), s.defers...)
	return n
}

// Obl is one proof obligation.
type Obl struct {
	Name    string
	Kind    string
	Func    string
	Pos     token.Position
	Props   []string
	Goal    Term // guard /\ not cond  (must be unsat)
	CmdIdx  int  // obligation may use cmds[:CmdIdx]
	Src     string
	Cover   bool // cover obligation: must NOT be unsat
	Rel     *Obl // relative cover: vacuity counts only if this earlier cover is itself satisfiable
	Status  string
	Solver  string
	TimeS   float64
	Cross   []string // verdicts of the other solvers (thorough tier)
	Model   string
	Bounded bool
	vc      *VC
}

// VC accumulates the verification condition of one function under contract.
type VC struct {
	cross bool // thorough tier: cross-check discharged obligations with the other solvers
	usedContracts map[string]*FuncContract // contracts relied on at call sites
	anchorHit map[string]bool // contract key|assert/after|anchor -> matched at least one program point
	eng       *Engine
	U         *Universe
	fn        *ssa.Function
	decls     []string
	declared  map[string]bool
	cmds      []string
	obls      []*Obl
	heapSorts map[string]Sort
	nfresh    int
	known     map[string]Sort            // heap names (with sorts) seen in earlier passes and this one
	loopUnmod map[string]map[string]bool // loop key -> heaps found unmodified in the previous pass
	loopUnmodNext map[string]map[string]bool
	defs      map[string]Term
	inlineSeq int
	noSafety  bool
	preludeError string
	altLoops  bool // built with the alternative loop invariant sets
	loopShift int  // loop invariants of the contract applied to the loops this many positions further down
	loopSetsUsed map[int]bool // under a shift: the contract's loop ordinals whose invariant set was applied to some loop
	refLoops  map[Term]map[string]bool // fresh ref -> loops active when it was allocated
	mapKeys   map[string][]Term // map domain heap -> key terms used by the function (replay candidates)
	lemma     *Lemma
	heapAlloc map[string]Term
	unsup     map[string]bool
	faddrSeen map[string]Term
	prop      string
	axiomsUsed  []string
	globalsUsed []string
	notes     map[string]bool // unsupported / imprecision notes
	externals map[string]bool
	inlined   map[string]bool
	unstable  map[string]bool // non-guarded fields read (A7)
	nameCount map[string]int
	curProps  []string
}

// unsupported marks the function as outside the supported subset: its obligations are
// reported as "unsupported", never as discharged.
func (vc *VC) unsupported(why string) {
	vc.unsup[why] = true
}

func (vc *VC) note(format string, a ...interface{}) {
	vc.notes[fmt.Sprintf(format, a...)] = true
}

func (vc *VC) freshName(prefix string) string {
	vc.nfresh++
	return fmt.Sprintf("%s!%d", sanitize(prefix), vc.nfresh)
}

func (vc *VC) fresh(prefix string, s Sort) Term {
	n := vc.freshName(prefix)
	vc.decls = append(vc.decls, fmt.Sprintf("(declare-const %s %s)", n, s))
	return n
}

func (vc *VC) define(prefix string, s Sort, t Term) Term {
	if len(t) < 24 && !strings.ContainsAny(t, " ") {
		return t
	}
	n := vc.freshName(prefix)
	vc.cmds = append(vc.cmds, fmt.Sprintf("(define-fun %s () %s %s)", n, s, t))
	vc.defs[n] = t
	return n
}

// defineOpaque names a term with a declared constant plus an equation (instead of a
// define-fun macro), so that the name survives the solver's preprocessing and can be
// matched by quantifier triggers such as (select row (+ off i)).
func (vc *VC) defineOpaque(prefix string, s Sort, t Term) Term {
	if len(t) < 24 && !strings.ContainsAny(t, " ") {
		return t
	}
	n := vc.freshName(prefix)
	vc.cmds = append(vc.cmds, fmt.Sprintf("(declare-const %s %s)", n, s), fmt.Sprintf("(assert (= %s %s))", n, t))
	vc.defs[n] = t
	return n
}

func (vc *VC) assume(guard, fact Term) {
	f := imp(guard, fact)
	if f == "true" {
		return
	}
	vc.cmds = append(vc.cmds, "(assert "+f+")")
}

func (vc *VC) oblige(kind, name string, pos token.Position, src string, guard, cond Term, props []string) {
	if cond == "true" || guard == "false" {
		// trivially discharged; still count explicit ones
		if kind == "post" || strings.HasPrefix(kind, "loop") || kind == "pre" || kind == "assert" || kind == "chaninv" || kind == "lockinv" || kind == "lemma" || kind == "typeinv" {
			vc.obls = append(vc.obls, &Obl{Name: vc.uniq(name), Kind: kind, Func: vc.fn.String(), Pos: pos, Props: props, Goal: "false", CmdIdx: len(vc.cmds), Src: src})
		}
		return
	}
	vc.obls = append(vc.obls, &Obl{Name: vc.uniq(name), Kind: kind, Func: vc.fn.String(), Pos: pos, Props: props, Goal: and(guard, not(cond)), CmdIdx: len(vc.cmds), Src: src})
	// "assert P; assume P": what was just demanded is known afterwards - but only when somebody
	// checks it in this run.  An obligation that belongs to another property (unclaimed here) must not
	// be assumed: if the code violates it in every state (a guarded field read after the unlock, an
	// anchored assertion of another check), assuming it would make every later point of the path
	// unreachable and the obligations of THIS property there vacuously true.  The implicit safety
	// obligations (nil, bounds, ...) are the exception: "the function does not panic here" is the
	// usual partial-correctness assumption and later reasoning needs it.
	if vc.prop == "" || hasProp(props, vc.prop) || os.Getenv("GOVC_ASSUME_UNCLAIMED") != "" {
		vc.assume(guard, cond)
		return
	}
	switch kind {
	case "nil", "bounds", "nilmap", "divzero", "typeassert", "makeslice", "panic":
		vc.assume(guard, cond)
	}
}

func (vc *VC) cover(name string, pos token.Position, guard Term, props []string) {
	vc.obls = append(vc.obls, &Obl{Name: vc.uniq(name), Kind: "cover", Func: vc.fn.String(), Pos: pos, Props: props, Goal: guard, CmdIdx: len(vc.cmds), Cover: true})
}

// coverRel adds a cover obligation and returns it (for relative covers around contract calls).
func (vc *VC) coverRel(name string, pos token.Position, guard Term, rel *Obl) *Obl {
	var props []string
	if vc.prop != "" {
		props = []string{vc.prop}
	}
	o := &Obl{Name: vc.uniq(name), Kind: "cover", Func: vc.fn.String(), Pos: pos, Props: props, Goal: guard, CmdIdx: len(vc.cmds), Cover: true, Rel: rel}
	vc.obls = append(vc.obls, o)
	return o
}

func (vc *VC) uniq(name string) string {
	vc.nameCount[name]++
	if n := vc.nameCount[name]; n > 1 {
		return fmt.Sprintf("%s~%d", name, n)
	}
	return name
}

// heap returns the current term of heap `name` in st, creating the initial
// version on first touch.
func (vc *VC) heap(st *State, name string, s Sort) Term {
	if t, ok := st.heaps[name]; ok {
		return t
	}
	init := vc.initHeap(name, s)
	return init
}

func (vc *VC) initHeap(name string, s Sort) Term {
	if old, ok := vc.heapSorts[name]; ok && old != s {
		panic(fmt.Sprintf("heap %s: sort clash %s vs %s", name, old, s))
	}
	n := sanitize(name) + "@0"
	if !vc.declared[n] {
		vc.declared[n] = true
		vc.heapSorts[name] = s
		vc.decls = append(vc.decls, fmt.Sprintf("(declare-const %s %s)", n, s))
		vc.known[name] = s
		if name == "$alloc" {
			vc.decls = append(vc.decls, fmt.Sprintf("(assert (>= %s 0))", n))
		}
	}
	return n
}

func (vc *VC) setHeap(st *State, name string, s Sort, t Term) {
	vc.initHeap(name, s)
	st.heaps[name] = vc.define(name, s, t)
	vc.recordAlloc(st, st.heaps[name])
}

// recordAlloc remembers the allocation counter at the time a heap version was created:
// every reference stored in that version is <= it ("allocated" invariant).
func (vc *VC) recordAlloc(st *State, heapTerm Term) {
	if strings.HasSuffix(heapTerm, "@0") {
		return
	}
	a, ok := st.heaps["$alloc"]
	if !ok {
		a = "$alloc@0"
		vc.initHeap("$alloc", SInt)
	}
	if _, seen := vc.heapAlloc[heapTerm]; !seen {
		vc.heapAlloc[heapTerm] = a
	}
}

// sortOfHeapTerm finds the sort of a heap version term (name@0, name!k or a defined alias).
func (vc *VC) sortOfHeapTerm(t Term) Sort {
	for name, s := range vc.heapSorts {
		sn := sanitize(name)
		if t == sn+"@0" || strings.HasPrefix(t, sn+"!") {
			return s
		}
	}
	return ""
}

// allocBound returns the allocation counter that bounds the references held in heapTerm.
func (vc *VC) allocBound(heapTerm Term, cur Term) Term {
	if strings.HasSuffix(heapTerm, "@0") {
		vc.initHeap("$alloc", SInt)
		return "$alloc@0"
	}
	if a, ok := vc.heapAlloc[heapTerm]; ok {
		return a
	}
	return cur
}

func (vc *VC) havocHeap(st *State, name string) Term {
	s := vc.heapSorts[name]
	if s == "" {
		s = vc.known[name]
		if s == "" {
			panic("havoc of unknown heap " + name)
		}
		vc.initHeap(name, s)
	}
	c := vc.fresh(name, s)
	st.heaps[name] = c
	if name != "$alloc" {
		delete(vc.heapAlloc, c) // bounded by the allocation counter current at load time (callee may allocate)
	}
	return c
}

// mergeStates builds the state at a join from (edge condition, state) pairs.
func (vc *VC) mergeStates(edges []Term, sts []*State) *State {
	if len(sts) == 1 {
		return sts[0].clone()
	}
	out := &State{heaps: map[string]Term{}}
	names := map[string]bool{}
	for _, s := range sts {
		for k := range s.heaps {
			names[k] = true
		}
	}
	var keys []string
	for k := range names {
		keys = append(keys, k)
	}
	sort.Strings(keys)
	for _, k := range keys {
		s := vc.heapSorts[k]
		terms := make([]Term, len(sts))
		same := true
		for i, st := range sts {
			terms[i] = vc.heap(st, k, s)
			if terms[i] != terms[0] {
				same = false
			}
		}
		if same {
			out.heaps[k] = terms[0]
			continue
		}
		t := terms[len(terms)-1]
		for i := len(terms) - 2; i >= 0; i-- {
			t = ite(edges[i], terms[i], t)
		}
		out.heaps[k] = vc.define(k, s, t)
		if k != "$alloc" {
			vc.recordAlloc(out, out.heaps[k])
		}
	}
	// defers: merge by instruction identity, guards or-ed
	var order []*ssa.Defer
	byInstr := map[*ssa.Defer]*deferEntry{}
	for i, st := range sts {
		for _, d := range st.defers {
			g := and(edges[i], d.guard)
			if e, ok := byInstr[d.instr]; ok {
				e.guard = or(e.guard, g)
			} else {
				ne := *d
				ne.guard = g
				byInstr[d.instr] = &ne
				order = append(order, d.instr)
			}
		}
	}
	for _, in := range order {
		e := byInstr[in]
		e.guard = vc.define("dguard", SBool, e.guard)
		out.defers = append(out.defers, e)
	}
	return out
}

// Script renders prelude + declarations + commands up to idx.
func (vc *VC) scriptPrefix() string {
	var b strings.Builder
	b.WriteString(vc.U.Prelude())
	for _, d := range vc.decls {
		b.WriteString(d)
		b.WriteByte('\n')
	}
	return b.String()
}

// frameHeap defines a new version of a ref-indexed heap that agrees with `old` on every
// object r <= bound (except the listed refs) and is arbitrary elsewhere. Encoded as a lambda
// array (z3), which keeps the query quantifier-free.
func (vc *VC) frameHeap(st *State, name string, old Term, bound Term, except []Term) Term {
	s := vc.heapSorts[name]
	if s == "" {
		s = vc.known[name]
	}
	vs := strings.TrimSuffix(strings.TrimPrefix(s, "(Array Int "), ")")
	nw := vc.fresh(name+".new", s)
	cond := []Term{sx("<=", "r!l", bound)}
	for _, e := range except {
		cond = append(cond, not(eq("r!l", e)))
	}
	_ = vs
	t := fmt.Sprintf("(lambda ((r!l Int)) (ite %s (select %s r!l) (select %s r!l)))", and(cond...), old, nw)
	n := vc.freshName(name)
	vc.cmds = append(vc.cmds, fmt.Sprintf("(define-fun %s () %s %s)", n, s, t))
	st.heaps[name] = n
	return n
}

// faddr returns the address of a struct-valued field embedded in the object at
// ref, together with the (instance) injectivity facts.
func (vc *VC) faddr(heapName string, ref Term) Term {
	fid := num(int64(vc.U.fieldID(heapName)))
	t := sx("faddr", fid, ref)
	key := t
	if n, ok := vc.faddrSeen[key]; ok {
		return n
	}
	n := vc.define("fa", SInt, t)
	vc.cmds = append(vc.cmds, "(assert "+and(eq(sx("fbase", n), ref), eq(sx("ffid", n), fid), sx("<", n, "0"))+")")
	vc.faddrSeen[key] = n
	if rl, ok := vc.refLoops[ref]; ok {
		vc.refLoops[n] = rl // an embedded struct of a fresh object is as fresh as the object
	}
	return n
}
