package main

// tryReplay attempts to replay a failed obligation's model against the real
// code (go test -overlay). Returns "" when no driver applies.
func (r *Run) tryReplay(o *Obl, rep map[string]interface{}) string {
	return ""
}

func replayFromFile(repo, file string) int {
	println("replay: no driver recorded in", file)
	return 0
}
