package main

import (
	"bytes"
	"context"
	"encoding/json"
	"fmt"
	"go/ast"
	"go/constant"
	"go/printer"
	"go/token"
	"go/types"
	"os"
	"os/exec"
	"path/filepath"
	"sort"
	"strconv"
	"strings"
	"time"

	"golang.org/x/tools/go/ssa"
)

// ---------------------------------------------------------------------------
// Replay: decode the solver's model into Go values, generate an in-package
// test, run it against the real code with `go test -overlay` (nothing is
// written to /repo) and report whether the violation reproduces.
// ---------------------------------------------------------------------------

type replayer struct {
	run     *Run
	vc      *VC
	o       *Obl
	pkg     *types.Package
	pinned  map[Term]string // term -> value (asserted in later rounds)
	objs    map[string]string // "T@ref" -> variable name
	decls   []string          // variable declarations (in order)
	inits   []string          // field initialisations
	imports map[string]string // path -> name
	nvar    int
	fail    string
	strVals map[string]string // model element -> Go string literal
	strN    int
	deadline time.Time
}

func (r *Run) tryReplay(o *Obl, rep map[string]interface{}) string {
	if o.vc == nil || o.Status != "failed" || !strings.Contains(o.Model, "sat") {
		return ""
	}
	vc := o.vc
	p := pkgOf(vc.fn)
	if p == nil {
		return ""
	}
	rp := &replayer{run: r, vc: vc, o: o, pkg: p.Pkg, pinned: map[Term]string{}, objs: map[string]string{}, imports: map[string]string{}, strVals: map[string]string{}, deadline: time.Now().Add(40 * time.Second)}
	var src, oracle string
	if vc.lemma != nil {
		src, oracle = rp.buildLemma()
	} else {
		src, oracle = rp.build()
	}
	if src == "" {
		rep["replay"] = "no replay driver: " + rp.fail
		return ""
	}
	rep["replay_test"] = src
	rep["replay_oracle"] = oracle
	out, err := runReplayTest(r.eng.repo, p.Pkg.Path(), src)
	rep["replay_output"] = trunc(out, 4000)
	if err != nil {
		rep["replay_error"] = err.Error()
	}
	rep["replay_cmd"] = "go test -overlay <ov.json> -vet=off -count=1 -timeout 60s -run TestGovcReplay ./" + relPkgDir(p.Pkg.Path())
	switch oracle {
	case "panic":
		if strings.Contains(out, "REPLAY-PANIC:") {
			return "replayed=confirmed"
		}
	case "post":
		if strings.Contains(out, "REPLAY-POST: false") {
			return "replayed=confirmed"
		}
	}
	rep["replay"] = "model did not reproduce on the real code (spurious model or inputs outside the driver's reach)"
	return ""
}

func relPkgDir(path string) string {
	return strings.TrimPrefix(strings.TrimPrefix(path, modulePath), "/")
}

func runReplayTest(repo, pkgPath, src string) (string, error) {
	dir, err := os.MkdirTemp("", "govc-replay-")
	if err != nil {
		return "", err
	}
	defer os.RemoveAll(dir)
	testFile := filepath.Join(dir, "zz_govc_replay_test.go")
	if err := os.WriteFile(testFile, []byte(src), 0o644); err != nil {
		return "", err
	}
	rel := relPkgDir(pkgPath)
	target := filepath.Join(repo, rel, "zz_govc_replay_test.go")
	ov, _ := json.Marshal(map[string]interface{}{"Replace": map[string]string{target: testFile}})
	ovFile := filepath.Join(dir, "ov.json")
	os.WriteFile(ovFile, ov, 0o644)
	ctx, cancel := context.WithTimeout(context.Background(), 180*time.Second)
	defer cancel()
	cmd := exec.CommandContext(ctx, "go", "test", "-overlay", ovFile, "-vet=off", "-count=1", "-timeout", "60s", "-run", "TestGovcReplay", "-v", "./"+rel)
	cmd.Dir = repo
	cmd.Env = cleanEnv()
	var out bytes.Buffer
	cmd.Stdout = &out
	cmd.Stderr = &out
	err = cmd.Run()
	return out.String(), err
}

// replayFromFile re-runs a recorded replay test.
func replayFromFile(repo, file string) int {
	data, err := os.ReadFile(file)
	if err != nil {
		fmt.Println("cannot read", file, err)
		return 2
	}
	var rep map[string]interface{}
	if err := json.Unmarshal(data, &rep); err != nil {
		fmt.Println("cannot parse", file, err)
		return 2
	}
	src, _ := rep["replay_test"].(string)
	fn, _ := rep["function"].(string)
	if src == "" {
		fmt.Printf("obligation %v failed; the verifier gave no replayable input (%v)\n%v\n", rep["obligation"], rep["replay"], rep["solver_output"])
		return 1
	}
	pkgPath := ""
	for _, l := range strings.Split(src, "\n") {
		if strings.HasPrefix(l, "// package-path: ") {
			pkgPath = strings.TrimPrefix(l, "// package-path: ")
		}
	}
	out, _ := runReplayTest(repo, pkgPath, src)
	fmt.Println(out)
	_ = fn
	if strings.Contains(out, "REPLAY-PANIC:") || strings.Contains(out, "REPLAY-POST: false") {
		fmt.Printf("VIOLATION property=%v replay=%s obligation=%v replayed=confirmed\n", rep["property"], file, rep["obligation"])
		return 1
	}
	fmt.Println("replay did not reproduce the violation on the current tree")
	return 0
}

// ------------------------------------------------------------------ model queries

// values evaluates terms in the model of the failed obligation (previously
// obtained values are pinned so that successive rounds see one model).
func (rp *replayer) values(terms []Term) (map[Term]string, bool) {
	if time.Now().After(rp.deadline) {
		rp.fail = "replay time budget exhausted while decoding the model"
		return nil, false
	}
	vc, o := rp.vc, rp.o
	var b strings.Builder
	b.WriteString(vc.scriptPrefix())
	for i := 0; i < o.CmdIdx && i < len(vc.cmds); i++ {
		b.WriteString(vc.cmds[i])
		b.WriteByte('\n')
	}
	fmt.Fprintf(&b, "(assert %s)\n", o.Goal)
	var pk []string
	for t := range rp.pinned {
		pk = append(pk, t)
	}
	sort.Strings(pk)
	for _, t := range pk {
		fmt.Fprintf(&b, "(assert (= %s %s))\n", t, rp.pinned[t])
	}
	b.WriteString("(check-sat)\n")
	for i, t := range terms {
		fmt.Fprintf(&b, "(echo \"VAL %d\")\n(get-value (%s))\n", i, t)
	}
	dir, _ := os.MkdirTemp("", "govc-val-")
	defer os.RemoveAll(dir)
	file := filepath.Join(dir, "q.smt2")
	os.WriteFile(file, []byte(b.String()), 0o644)
	out, _ := runSolver(context.Background(), solvers[0], file, 5)
	if os.Getenv("GOVC_DEBUG_REPLAY") != "" {
		fmt.Fprintln(os.Stderr, "REPLAY QUERY", terms, "=>", trunc(out, 600))
	}
	lines := strings.Split(out, "\n")
	if len(lines) == 0 || strings.TrimSpace(lines[0]) != "sat" {
		return nil, false
	}
	res := map[Term]string{}
	cur := -1
	var acc strings.Builder
	flush := func() {
		if cur >= 0 {
			s := strings.TrimSpace(acc.String())
			// ((term value))
			s = strings.TrimPrefix(s, "((")
			s = strings.TrimSuffix(s, "))")
			t := terms[cur]
			if strings.HasPrefix(s, t) {
				res[t] = strings.TrimSpace(s[len(t):])
			} else if i := strings.LastIndex(s, " "); i >= 0 {
				// z3 may normalise the term; take the last s-expression
				res[t] = lastSexp(s)
			}
		}
		acc.Reset()
	}
	for _, l := range lines[1:] {
		tl := strings.TrimSpace(l)
		if strings.HasPrefix(tl, "VAL ") || strings.HasPrefix(tl, "\"VAL ") {
			flush()
			fmt.Sscanf(strings.Trim(tl, "\""), "VAL %d", &cur)
			continue
		}
		acc.WriteString(l)
		acc.WriteByte(' ')
	}
	flush()
	return res, true
}

func lastSexp(s string) string {
	s = strings.TrimSpace(s)
	if strings.HasSuffix(s, ")") {
		depth := 0
		for i := len(s) - 1; i >= 0; i-- {
			switch s[i] {
			case ')':
				depth++
			case '(':
				depth--
				if depth == 0 {
					return s[i:]
				}
			}
		}
	}
	if i := strings.LastIndex(s, " "); i >= 0 {
		return s[i+1:]
	}
	return s
}

func parseSMTInt(s string) (int64, bool) {
	s = strings.TrimSpace(s)
	neg := false
	if strings.HasPrefix(s, "(- ") {
		neg = true
		s = strings.TrimSuffix(strings.TrimPrefix(s, "(- "), ")")
	}
	n, err := strconv.ParseInt(strings.TrimSpace(s), 10, 64)
	if err != nil {
		// may exceed int64 (uint64)
		u, err2 := strconv.ParseUint(strings.TrimSpace(s), 10, 64)
		if err2 != nil {
			return 0, false
		}
		return int64(u), !neg
	}
	if neg {
		n = -n
	}
	return n, true
}

func (rp *replayer) one(t Term) (string, bool) {
	m, ok := rp.values([]Term{t})
	if !ok {
		return "", false
	}
	v, ok := m[t]
	if ok && !strings.Contains(v, "!val!") {
		rp.pinned[t] = v
	}
	return v, ok
}

func (rp *replayer) oneInt(t Term) (int64, bool) {
	v, ok := rp.one(t)
	if !ok {
		return 0, false
	}
	return parseSMTInt(v)
}

// ------------------------------------------------------------------ value construction

func (rp *replayer) qualifier(p *types.Package) string {
	if p == rp.pkg {
		return ""
	}
	if n, ok := rp.imports[p.Path()]; ok {
		return n
	}
	name := p.Name()
	for _, n := range rp.imports {
		if n == name {
			name = fmt.Sprintf("%s%d", p.Name(), len(rp.imports))
		}
	}
	rp.imports[p.Path()] = name
	return name
}

func (rp *replayer) typeStr(t types.Type) string {
	return types.TypeString(t, rp.qualifier)
}

func (rp *replayer) newVar() string {
	rp.nvar++
	return fmt.Sprintf("v%d", rp.nvar)
}

func (rp *replayer) entryHeap(name string) (Term, bool) {
	n := sanitize(name) + "@0"
	return n, rp.vc.declared[n]
}

// goValue returns a Go expression for the value `term` of type t in the entry state.
func (rp *replayer) goValue(term Term, t types.Type, depth int) (string, bool) {
	if depth > 6 {
		rp.fail = "object graph too deep"
		return "", false
	}
	U := rp.vc.U
	switch tt := t.Underlying().(type) {
	case *types.Basic:
		switch {
		case tt.Info()&types.IsBoolean != 0:
			v, ok := rp.one(term)
			if !ok {
				return "", false
			}
			return rp.typeStr(t) + "(" + v + ")", true
		case tt.Info()&types.IsInteger != 0:
			n, ok := rp.oneInt(term)
			if !ok {
				return "", false
			}
			if tt.Kind() == types.Uint64 || tt.Kind() == types.Uint || tt.Kind() == types.Uintptr {
				return fmt.Sprintf("%s(%d)", rp.typeStr(t), uint64(n)), true
			}
			return fmt.Sprintf("%s(%d)", rp.typeStr(t), n), true
		case tt.Info()&types.IsString != 0:
			s, ok := rp.goString(term)
			if !ok {
				return "", false
			}
			return rp.typeStr(t) + "(" + s + ")", true
		}
		rp.fail = "unsupported basic type " + t.String()
		return "", false
	case *types.Pointer:
		ref, ok := rp.oneInt(term)
		if !ok {
			return "", false
		}
		if ref == 0 {
			return "nil", true
		}
		return rp.goObject(ref, tt.Elem(), depth)
	case *types.Slice:
		ln, ok := rp.oneInt(sx("slen", term))
		if !ok {
			return "", false
		}
		arr, _ := rp.oneInt(sx("sarr", term))
		if arr == 0 {
			return "nil", true
		}
		if ln > 2048 {
			rp.fail = "slice too long for replay"
			return "", false
		}
		hn, _ := U.elemHeapT(tt.Elem())
		h, declared := rp.entryHeap(hn)
		var elems []string
		for i := int64(0); i < ln; i++ {
			if !declared {
				elems = append(elems, rp.zeroExpr(tt.Elem()))
				continue
			}
			e, ok := rp.goValue(sel(sel(h, sx("sarr", term)), sx("+", sx("soff", term), num(i))), tt.Elem(), depth+1)
			if !ok {
				return "", false
			}
			elems = append(elems, e)
		}
		return rp.typeStr(t) + "{" + strings.Join(elems, ", ") + "}", true
	case *types.Struct:
		info := U.structInfo[U.sortOf(t)]
		if info == nil {
			rp.fail = "unknown struct sort"
			return "", false
		}
		var fs []string
		for i := 0; i < tt.NumFields(); i++ {
			f := tt.Field(i)
			if !f.Exported() && f.Pkg() != rp.pkg {
				continue
			}
			if f.Name() == "_" {
				continue
			}
			e, ok := rp.goValue(sx(info.Fields[i], term), f.Type(), depth+1)
			if !ok {
				return "", false
			}
			fs = append(fs, f.Name()+": "+e)
		}
		return rp.typeStr(t) + "{" + strings.Join(fs, ", ") + "}", true
	case *types.Interface:
		tag, ok := rp.oneInt(sx("itag", term))
		if !ok {
			return "", false
		}
		if tag == 0 {
			return "nil", true
		}
		rp.fail = "non-nil interface value in the model"
		return "", false
	case *types.Map:
		ref, ok := rp.oneInt(term)
		if !ok {
			return "", false
		}
		if ref == 0 {
			return "nil", true
		}
		return rp.goMap(ref, t, tt, depth)
	case *types.Array:
		return rp.typeStr(t) + "{}", true
	}
	rp.fail = "unsupported type " + t.String()
	return "", false
}

func (rp *replayer) zeroExpr(t types.Type) string {
	switch t.Underlying().(type) {
	case *types.Pointer, *types.Slice, *types.Map, *types.Interface, *types.Chan, *types.Signature:
		return "nil"
	case *types.Struct, *types.Array:
		return rp.typeStr(t) + "{}"
	case *types.Basic:
		b := t.Underlying().(*types.Basic)
		if b.Info()&types.IsString != 0 {
			return rp.typeStr(t) + "(\"\")"
		}
		if b.Info()&types.IsBoolean != 0 {
			return "false"
		}
	}
	return rp.typeStr(t) + "(0)"
}

// goObject builds (once per ref) the object a pointer designates.
func (rp *replayer) goObject(ref int64, elem types.Type, depth int) (string, bool) {
	key := fmt.Sprintf("%s@%d", types.TypeString(elem, nil), ref)
	if v, ok := rp.objs[key]; ok {
		return v, true
	}
	U := rp.vc.U
	v := rp.newVar()
	rp.objs[key] = v
	refT := num(ref)
	if st, ok := elem.Underlying().(*types.Struct); ok {
		rp.decls = append(rp.decls, fmt.Sprintf("%s := &%s{}", v, rp.typeStr(elem)))
		if !rp.fillStruct(v, refT, elem, st, depth) {
			return "", false
		}
		return v, true
	}
	// pointer to a non-struct cell
	hn, _ := U.ptrHeapT(elem)
	h, declared := rp.entryHeap(hn)
	rp.decls = append(rp.decls, fmt.Sprintf("%s := new(%s)", v, rp.typeStr(elem)))
	if declared {
		e, ok := rp.goValue(sel(h, refT), elem, depth+1)
		if !ok {
			return "", false
		}
		rp.inits = append(rp.inits, fmt.Sprintf("*%s = %s", v, e))
	}
	return v, true
}

func (rp *replayer) fillStruct(v string, refT Term, T types.Type, st *types.Struct, depth int) bool {
	U := rp.vc.U
	for i := 0; i < st.NumFields(); i++ {
		f := st.Field(i)
		if f.Name() == "_" || (!f.Exported() && f.Pkg() != rp.pkg) {
			continue
		}
		hn := fieldHeapName(T, i)
		if fst, ok := f.Type().Underlying().(*types.Struct); ok {
			// flattened at faddr
			if n := namedOf(f.Type()); n != nil && n.Obj().Pkg() != nil && (n.Obj().Pkg().Path() == "sync" || n.Obj().Pkg().Path() == "time") {
				continue
			}
			fa := sx("faddr", num(int64(U.fieldID(hn))), refT)
			av, ok := rp.oneInt(fa)
			if !ok {
				continue // never touched by the function
			}
			if !rp.fillStruct(v+"."+f.Name(), num(av), f.Type(), fst, depth+1) {
				return false
			}
			continue
		}
		h, declared := rp.entryHeap(hn)
		if !declared {
			continue // the function never reads this field: zero value is as good as any
		}
		switch f.Type().Underlying().(type) {
		case *types.Chan, *types.Signature:
			continue
		}
		e, ok := rp.goValue(sel(h, refT), f.Type(), depth+1)
		if !ok {
			return false
		}
		rp.inits = append(rp.inits, fmt.Sprintf("%s.%s = %s", v, f.Name(), e))
	}
	return true
}

// goString maps an abstract string value to a Go literal: a known constant if
// the model equates it with one, otherwise a unique string of the model's length.
func (rp *replayer) goString(term Term) (string, bool) {
	U := rp.vc.U
	terms := []Term{term, sx("strlen", term)}
	var lits []string
	for _, lit := range U.strOrder {
		terms = append(terms, U.strConsts[lit])
		lits = append(lits, lit)
	}
	m, ok := rp.values(terms)
	if !ok {
		return "", false
	}
	elem := m[term]
	for i, lit := range lits {
		if m[U.strConsts[lits[i]]] == elem {
			rp.pinned[term] = U.strConsts[lits[i]]
			return strconv.Quote(lit), true
		}
	}
	if s, ok := rp.strVals[elem]; ok {
		return s, true
	}
	n, _ := parseSMTInt(m[sx("strlen", term)])
	rp.strN++
	s := fmt.Sprintf("g%d", rp.strN)
	for int64(len(s)) < n && len(s) < 256 {
		s += "x"
	}
	if int64(len(s)) > n && n >= 0 {
		// cannot honour a very short length and stay unique beyond a few values
		alphabet := "abcdefghijklmnopqrstuvwxyz"
		if n == 0 {
			s = ""
		} else {
			s = strings.Repeat(string(alphabet[rp.strN%26]), int(n))
		}
	}
	q := strconv.Quote(s)
	rp.strVals[elem] = q
	return q, true
}

// ------------------------------------------------------------------ test generation

func (rp *replayer) build() (string, string) {
	fn := rp.vc.fn
	if fn.Parent() != nil || len(fn.FreeVars) > 0 {
		rp.fail = "closure"
		return "", ""
	}
	oracle := ""
	switch rp.o.Kind {
	case "bounds", "nil", "nilmap", "divzero", "typeassert", "makeslice", "panic":
		oracle = "panic"
	case "post":
		oracle = "post"
	default:
		rp.fail = "no oracle for obligation kind " + rp.o.Kind
		return "", ""
	}
	// top-level parameter terms: p.<name>!k constants; find them in decls
	paramTerm := map[string]Term{}
	for _, d := range rp.vc.decls {
		if strings.HasPrefix(d, "(declare-const p.") {
			f := strings.Fields(d)
			name := f[1]
			base := strings.TrimPrefix(name, "p.")
			if i := strings.LastIndex(base, "!"); i >= 0 {
				base = base[:i]
			}
			if _, dup := paramTerm[base]; !dup {
				paramTerm[base] = name
			}
		}
	}
	var args []string
	var recv string
	for i, p := range fn.Params {
		t, ok := paramTerm[sanitize(p.Name())]
		if !ok {
			rp.fail = "parameter term not found: " + p.Name()
			return "", ""
		}
		e, ok := rp.goValue(t, p.Type(), 0)
		if !ok {
			if rp.fail == "" {
				rp.fail = "cannot decode parameter " + p.Name()
			}
			return "", ""
		}
		name := p.Name()
		if name == "" || name == "_" {
			name = fmt.Sprintf("arg%d", i)
		}
		rp.inits = append(rp.inits, fmt.Sprintf("var %s %s = %s\n\t_ = %s", name, rp.typeStr(p.Type()), e, name))
		if i == 0 && fn.Signature.Recv() != nil {
			recv = name
		} else {
			args = append(args, name)
		}
	}
	// globals of the package read by the function (entry values) -- only simple scalars
	var globalSets []string
	var gnames []string
	for n := range rp.vc.known {
		gnames = append(gnames, n)
	}
	sort.Strings(gnames)
	for _, hn := range gnames {
		if !strings.HasPrefix(hn, "G|"+rp.pkg.Path()+".") {
			continue
		}
		gname := strings.TrimPrefix(hn, "G|"+rp.pkg.Path()+".")
		obj, ok := rp.pkg.Scope().Lookup(gname).(*types.Var)
		if !ok {
			continue
		}
		if b, ok := obj.Type().Underlying().(*types.Basic); ok && b.Info()&(types.IsInteger|types.IsBoolean) != 0 {
			h, declared := rp.entryHeap(hn)
			if !declared {
				continue
			}
			e, ok := rp.goValue(h, obj.Type(), 0)
			if ok {
				globalSets = append(globalSets, fmt.Sprintf("%s = %s", gname, e))
			}
		}
	}
	// call expression
	sig := fn.Signature
	var resNames []string
	for i := 0; i < sig.Results().Len(); i++ {
		resNames = append(resNames, fmt.Sprintf("r%d", i))
	}
	call := fn.Name() + "(" + strings.Join(args, ", ") + ")"
	if sig.Variadic() && len(args) > 0 {
		call = fn.Name() + "(" + strings.Join(args, ", ") + "...)"
	}
	if recv != "" {
		call = recv + "." + call
	}
	var olds []string
	postGo := ""
	if oracle == "post" {
		fc := rp.vc.eng.contractOf(fn)
		var clause *Clause
		var idx int
		if _, err := fmt.Sscanf(rp.o.Name[strings.LastIndex(rp.o.Name, "/post#")+1:], "post#%d", &idx); err == nil && fc != nil && idx >= 1 && idx <= len(fc.Ensures) {
			clause = fc.Ensures[idx-1]
		}
		if clause == nil {
			rp.fail = "postcondition clause not found"
			return "", ""
		}
		g := &goCompiler{rp: rp, fn: fn, resNames: resNames}
		e, err := g.compile(clause.Expr, false)
		if err != nil {
			rp.fail = "postcondition not executable: " + err.Error()
			return "", ""
		}
		postGo = e
		olds = g.olds
	}
	var b strings.Builder
	fmt.Fprintf(&b, "// Code generated by govc (replay of a verifier counterexample). DO NOT EDIT.\n// package-path: %s\n// obligation: %s\n", rp.pkg.Path(), rp.o.Name)
	fmt.Fprintf(&b, "package %s\n\nimport (\n\t\"fmt\"\n\t\"testing\"\n", rp.pkg.Name())
	var ips []string
	for p := range rp.imports {
		ips = append(ips, p)
	}
	sort.Strings(ips)
	for _, p := range ips {
		if p == "fmt" || p == "testing" {
			continue
		}
		fmt.Fprintf(&b, "\t%s %q\n", rp.imports[p], p)
	}
	b.WriteString(")\n\nfunc govcIte[T any](c bool, a, b T) T {\n\tif c {\n\t\treturn a\n\t}\n\treturn b\n}\n\n")
	b.WriteString("func TestGovcReplay(_ *testing.T) {\n")
	for _, d := range rp.decls {
		b.WriteString("\t" + d + "\n")
	}
	for _, s := range rp.inits {
		b.WriteString("\t" + s + "\n")
	}
	for _, s := range globalSets {
		b.WriteString("\t" + s + "\n")
	}
	b.WriteString("\tdefer func() {\n\t\tif r := recover(); r != nil {\n\t\t\tfmt.Println(\"REPLAY-PANIC:\", r)\n\t\t}\n\t}()\n")
	for _, o := range olds {
		b.WriteString("\t" + o + "\n")
	}
	if len(resNames) > 0 {
		fmt.Fprintf(&b, "\t%s := %s\n", strings.Join(resNames, ", "), call)
		for _, r := range resNames {
			fmt.Fprintf(&b, "\t_ = %s\n", r)
		}
	} else {
		fmt.Fprintf(&b, "\t%s\n", call)
	}
	if oracle == "post" {
		fmt.Fprintf(&b, "\tfmt.Println(\"REPLAY-POST:\", %s)\n", postGo)
	} else {
		b.WriteString("\tfmt.Println(\"REPLAY-NOPANIC\")\n")
	}
	b.WriteString("}\n")
	return b.String(), oracle
}

// goCompiler turns a (quantifier-free) contract expression into executable Go.
type goCompiler struct {
	rp       *replayer
	fn       *ssa.Function
	resNames []string
	olds     []string
	nold     int
	subst    map[string]ast.Expr
	allowCalls bool
}

func exprString(e ast.Expr) string {
	var b bytes.Buffer
	printer.Fprint(&b, token.NewFileSet(), e)
	return b.String()
}

func (g *goCompiler) compile(e ast.Expr, inOld bool) (string, error) {
	switch x := e.(type) {
	case *ast.ParenExpr:
		s, err := g.compile(x.X, inOld)
		return "(" + s + ")", err
	case *ast.BasicLit:
		return x.Value, nil
	case *ast.Ident:
		if g.subst != nil {
			if r, ok := g.subst[x.Name]; ok {
				sv := g.subst
				g.subst = nil
				s, err := g.compile(r, inOld)
				g.subst = sv
				return "(" + s + ")", err
			}
		}
		if x.Name == "result" && len(g.resNames) == 1 {
			return g.resNames[0], nil
		}
		if strings.HasPrefix(x.Name, "result") {
			if n, err := strconv.Atoi(x.Name[6:]); err == nil && n < len(g.resNames) {
				return g.resNames[n], nil
			}
		}
		sig := g.fn.Signature
		for i := 0; i < sig.Results().Len(); i++ {
			if sig.Results().At(i).Name() == x.Name && x.Name != "" {
				return g.resNames[i], nil
			}
		}
		return x.Name, nil
	case *ast.SelectorExpr:
		if id, ok := x.X.(*ast.Ident); ok {
			// imported package?
			env := &SpecEnv{fr: &Frame{vc: g.rp.vc}, pkg: pkgOf(g.fn), vars: map[string]*Val{}}
			isParam := false
			for _, p := range g.fn.Params {
				if p.Name() == id.Name {
					isParam = true
				}
			}
			if g.subst != nil {
				if _, ok := g.subst[id.Name]; ok {
					isParam = true
				}
			}
			if !isParam {
				if p := env.importedPkg(id.Name); p != nil {
					return g.rp.qualifier(p) + "." + x.Sel.Name, nil
				}
			}
		}
		s, err := g.compile(x.X, inOld)
		return s + "." + x.Sel.Name, err
	case *ast.StarExpr:
		s, err := g.compile(x.X, inOld)
		return "(*" + s + ")", err
	case *ast.UnaryExpr:
		s, err := g.compile(x.X, inOld)
		return "(" + x.Op.String() + s + ")", err
	case *ast.BinaryExpr:
		a, err := g.compile(x.X, inOld)
		if err != nil {
			return "", err
		}
		b, err := g.compile(x.Y, inOld)
		if err != nil {
			return "", err
		}
		return "(" + a + " " + x.Op.String() + " " + b + ")", nil
	case *ast.IndexExpr:
		a, err := g.compile(x.X, inOld)
		if err != nil {
			return "", err
		}
		b, err := g.compile(x.Index, inOld)
		return a + "[" + b + "]", err
	case *ast.CallExpr:
		id, ok := x.Fun.(*ast.Ident)
		if !ok {
			return "", fmt.Errorf("call %s", exprString(x.Fun))
		}
		switch id.Name {
		case "imp":
			a, err := g.compile(x.Args[0], inOld)
			if err != nil {
				return "", err
			}
			b, err := g.compile(x.Args[1], inOld)
			return "(!(" + a + ") || (" + b + "))", err
		case "iff":
			a, err := g.compile(x.Args[0], inOld)
			if err != nil {
				return "", err
			}
			b, err := g.compile(x.Args[1], inOld)
			return "((" + a + ") == (" + b + "))", err
		case "ite":
			c, err := g.compile(x.Args[0], inOld)
			if err != nil {
				return "", err
			}
			a, err := g.compile(x.Args[1], inOld)
			if err != nil {
				return "", err
			}
			b, err := g.compile(x.Args[2], inOld)
			if err != nil {
				return "", err
			}
			return "govcIte(" + c + ", " + a + ", " + b + ")", nil
		case "len", "cap", "int":
			a, err := g.compile(x.Args[0], inOld)
			return id.Name + "(" + a + ")", err
		case "old":
			if inOld {
				return g.compile(x.Args[0], true)
			}
			s, err := g.compile(x.Args[0], true)
			if err != nil {
				return "", err
			}
			g.nold++
			name := fmt.Sprintf("old%d", g.nold)
			g.olds = append(g.olds, fmt.Sprintf("%s := %s", name, s))
			return name, nil
		case "unchanged":
			s, err := g.compile(x.Args[0], false)
			if err != nil {
				return "", err
			}
			so, err := g.compile(x.Args[0], true)
			if err != nil {
				return "", err
			}
			g.nold++
			name := fmt.Sprintf("old%d", g.nold)
			g.olds = append(g.olds, fmt.Sprintf("%s := %s", name, so))
			return "(" + s + " == " + name + ")", nil
		case "has":
			m, err := g.compile(x.Args[0], inOld)
			if err != nil {
				return "", err
			}
			k, err := g.compile(x.Args[1], inOld)
			return "func() bool { _, ok := (" + m + ")[" + k + "]; return ok }()", err
		case "isconst":
			a, err := g.compile(x.Args[0], inOld)
			if err != nil {
				return "", err
			}
			env := &SpecEnv{fr: &Frame{vc: g.rp.vc}, pkg: pkgOf(g.fn), vars: map[string]*Val{}}
			t, err := env.resolveType(x.Args[1])
			if err != nil {
				return "", err
			}
			n := namedOf(t)
			var alts []string
			seen := map[string]bool{}
			sc := n.Obj().Pkg().Scope()
			for _, name := range sc.Names() {
				k, ok := sc.Lookup(name).(*types.Const)
				if !ok || !types.Identical(k.Type(), t) || k.Val().Kind() != constant.Int {
					continue
				}
				v := k.Val().ExactString()
				if seen[v] {
					continue
				}
				seen[v] = true
				alts = append(alts, fmt.Sprintf("int64(%s) == %s", a, v))
			}
			return "(" + strings.Join(alts, " || ") + ")", nil
		}
		if d := g.rp.vc.eng.findDefine(pkgOf(g.fn), id.Name); d != nil && len(d.Params) == len(x.Args) {
			sv := g.subst
			ns := map[string]ast.Expr{}
			for i, p := range d.Params {
				if sv != nil {
					// substitute outer parameters inside the argument first
					ns[p] = substAST(x.Args[i], sv)
				} else {
					ns[p] = x.Args[i]
				}
			}
			g.subst = ns
			s, err := g.compile(d.Expr, inOld)
			g.subst = sv
			return "(" + s + ")", err
		}
		if g.allowCalls {
			var as []string
			for _, a := range x.Args {
				s, err := g.compile(a, inOld)
				if err != nil {
					return "", err
				}
				as = append(as, s)
			}
			return id.Name + "(" + strings.Join(as, ", ") + ")", nil
		}
		return "", fmt.Errorf("contract function %s is not executable", id.Name)
	}
	return "", fmt.Errorf("expression %T is not executable", e)
}

// substAST replaces identifiers by expressions (shallow copy of the tree).
func substAST(e ast.Expr, m map[string]ast.Expr) ast.Expr {
	switch x := e.(type) {
	case *ast.Ident:
		if r, ok := m[x.Name]; ok {
			return r
		}
		return x
	case *ast.ParenExpr:
		return &ast.ParenExpr{X: substAST(x.X, m)}
	case *ast.SelectorExpr:
		return &ast.SelectorExpr{X: substAST(x.X, m), Sel: x.Sel}
	case *ast.StarExpr:
		return &ast.StarExpr{X: substAST(x.X, m)}
	case *ast.UnaryExpr:
		return &ast.UnaryExpr{Op: x.Op, X: substAST(x.X, m)}
	case *ast.BinaryExpr:
		return &ast.BinaryExpr{X: substAST(x.X, m), Op: x.Op, Y: substAST(x.Y, m)}
	case *ast.IndexExpr:
		return &ast.IndexExpr{X: substAST(x.X, m), Index: substAST(x.Index, m)}
	case *ast.CallExpr:
		n := &ast.CallExpr{Fun: x.Fun}
		for _, a := range x.Args {
			n.Args = append(n.Args, substAST(a, m))
		}
		return n
	}
	return e
}


// goMap builds a map input: candidate keys are the key terms the function itself uses
// on maps of this type; keys it never looks at cannot influence the execution.
func (rp *replayer) goMap(ref int64, t types.Type, mt *types.Map, depth int) (string, bool) {
	key := fmt.Sprintf("%s@%d", types.TypeString(t, nil), ref)
	if v, ok := rp.objs[key]; ok {
		return v, true
	}
	v := rp.newVar()
	rp.objs[key] = v
	rp.decls = append(rp.decls, fmt.Sprintf("%s := %s{}", v, rp.typeStr(t)))
	id := typeKey(mt.Key()) + "|" + typeKey(mt.Elem())
	dom, okD := rp.entryHeap("MD|" + id)
	val, okV := rp.entryHeap("MV|" + id)
	if !okD {
		return v, true
	}
	seen := map[string]bool{}
	for _, kt := range rp.vc.mapKeys["MD|"+id] {
		present, ok := rp.one(sel(sel(dom, num(ref)), kt))
		if !ok || present != "true" {
			continue
		}
		ke, ok := rp.goValue(kt, mt.Key(), depth+1)
		if !ok {
			return "", false
		}
		if seen[ke] {
			continue
		}
		seen[ke] = true
		ve := rp.zeroExpr(mt.Elem())
		if okV {
			ve, ok = rp.goValue(sel(sel(val, num(ref)), kt), mt.Elem(), depth+1)
			if !ok {
				return "", false
			}
		}
		rp.inits = append(rp.inits, fmt.Sprintf("%s[%s] = %s", v, ke, ve))
	}
	return v, true
}


// buildLemma: inputs are the lemma's forall variables; the let-steps become real calls.
func (rp *replayer) buildLemma() (string, string) {
	lm := rp.vc.lemma
	if rp.o.Kind != "lemma" {
		rp.fail = "no oracle for obligation kind " + rp.o.Kind
		return "", ""
	}
	varTerm := map[string]Term{}
	for _, d := range rp.vc.decls {
		if strings.HasPrefix(d, "(declare-const lemma.") {
			f := strings.Fields(d)
			base := strings.TrimPrefix(f[1], "lemma.")
			if i := strings.LastIndex(base, "!"); i >= 0 {
				base = base[:i]
			}
			if _, dup := varTerm[base]; !dup {
				varTerm[base] = f[1]
			}
		}
	}
	sp := rp.vc.eng.spkgs[lm.PkgPath]
	n := 0
	env := &SpecEnv{fr: &Frame{vc: rp.vc}, pkg: sp, vars: map[string]*Val{}, nq: &n}
	var body []string
	g := &goCompiler{rp: rp, fn: rp.vc.fn}
	var idx, want int
	fmt.Sscanf(rp.o.Name[strings.LastIndex(rp.o.Name, "/post#")+1:], "post#%d", &want)
	post := ""
	for _, st := range lm.Steps {
		switch st.Kind {
		case "forall":
			te, err := parserParseExpr(st.Text)
			if err != nil {
				return "", ""
			}
			t, err := env.resolveType(te)
			if err != nil || t == nil {
				rp.fail = "cannot resolve lemma variable type"
				return "", ""
			}
			e, ok := rp.goValue(varTerm[sanitize(st.Names[0])], t, 0)
			if !ok {
				return "", ""
			}
			body = append(body, fmt.Sprintf("var %s %s = %s\n\t_ = %s", st.Names[0], rp.typeStr(t), e, st.Names[0]))
		case "let":
			g.allowCalls = true
			s, err := g.compile(st.Expr, false)
			g.allowCalls = false
			if err != nil {
				rp.fail = err.Error()
				return "", ""
			}
			body = append(body, strings.Join(st.Names, ", ")+" := "+s)
			for _, nme := range st.Names {
				if nme != "_" {
					body = append(body, "_ = "+nme)
				}
			}
		case "ensures":
			idx++
			if idx == want {
				s, err := g.compile(st.Clause.Expr, false)
				if err != nil {
					rp.fail = "lemma conclusion not executable: " + err.Error()
					return "", ""
				}
				post = s
			}
		}
	}
	if post == "" {
		rp.fail = "lemma conclusion not found"
		return "", ""
	}
	var b strings.Builder
	fmt.Fprintf(&b, "// Code generated by govc (replay of a verifier counterexample). DO NOT EDIT.\n// package-path: %s\n// obligation: %s\n", rp.pkg.Path(), rp.o.Name)
	fmt.Fprintf(&b, "package %s\n\nimport (\n\t\"fmt\"\n\t\"testing\"\n", rp.pkg.Name())
	var ips []string
	for p := range rp.imports {
		ips = append(ips, p)
	}
	sort.Strings(ips)
	for _, p := range ips {
		fmt.Fprintf(&b, "\t%s %q\n", rp.imports[p], p)
	}
	b.WriteString(")\n\nfunc govcIte[T any](c bool, a, b T) T {\n\tif c {\n\t\treturn a\n\t}\n\treturn b\n}\n\nfunc TestGovcReplay(_ *testing.T) {\n")
	b.WriteString("\tdefer func() {\n\t\tif r := recover(); r != nil {\n\t\t\tfmt.Println(\"REPLAY-PANIC:\", r)\n\t\t}\n\t}()\n")
	for _, l := range body {
		b.WriteString("\t" + l + "\n")
	}
	fmt.Fprintf(&b, "\tfmt.Println(\"REPLAY-POST:\", %s)\n}\n", post)
	return b.String(), "post"
}
