package main

import (
	"go/token"

	"golang.org/x/tools/go/ssa"
)

// Extension points used by the lock-discipline (C09), monitor-invariant and
// channel-invariant machinery. The base engine leaves them empty.

func (fr *Frame) guardAccess(l *Loc, write bool, pos token.Pos)           {}
func (fr *Frame) guardMapAccess(m ssa.Value, write bool, pos token.Pos)   {}
func (fr *Frame) onMakeChan(i *ssa.MakeChan, ref Term)                    {}
func (fr *Frame) onRecv(ch *Val, v *Val, pos token.Pos)                   {}
func (fr *Frame) onSend(ch *Val, v *Val, pos token.Pos)                   {}
func (fr *Frame) onSelectCase(i *ssa.Select, idx int, ch *Val)            {}
func (fr *Frame) onRangeNext(r *ssa.Range, n *ssa.Next, ok, k, v *Val)    {}
func (fr *Frame) onClose(ch *Val, pos token.Pos)                          {}
func (fr *Frame) onAcquire(id Term, write bool, pos token.Pos)            {}
func (fr *Frame) onRelease(id Term, write bool, pos token.Pos)            {}
func (fr *Frame) onCondWait(id Term, pos token.Pos)                       {}
