package main

import (
	"fmt"
	"go/token"
	"go/types"

	"golang.org/x/tools/go/ssa"
)

// Extension points used by the lock-discipline (C09), monitor-invariant and
// channel-invariant machinery. The base engine leaves them empty.

func (fr *Frame) guardAccess(l *Loc, write bool, pos token.Pos)           {}
func (fr *Frame) guardMapAccess(m ssa.Value, write bool, pos token.Pos)   {}
func (fr *Frame) onMakeChan(i *ssa.MakeChan, ref Term)                    {}
func (fr *Frame) onRecv(ch *Val, v *Val, pos token.Pos)                   {}
func (fr *Frame) onSend(ch *Val, v *Val, pos token.Pos)                   {}
func (fr *Frame) onSelectCase(i *ssa.Select, idx int, ch *Val)            {}
func (fr *Frame) onRangeNext(r *ssa.Range, n *ssa.Next, ok, k, v *Val)    {}
func (fr *Frame) onClose(ch *Val, pos token.Pos)                          {}

// lockOwner resolves the mutex argument of a Lock/Unlock call to the object
// that embeds (or points to) it: (object, named struct type, mutex field name).
func (fr *Frame) lockOwner(arg ssa.Value) (*Val, *types.Named, string) {
	if arg == nil {
		return nil, nil, ""
	}
	if u, ok := arg.(*ssa.UnOp); ok && u.Op == token.MUL {
		arg = u.X
	}
	fa, ok := arg.(*ssa.FieldAddr)
	if !ok {
		return nil, nil, ""
	}
	n := namedOf(fa.X.Type())
	if n == nil {
		return nil, nil, ""
	}
	st, ok := n.Underlying().(*types.Struct)
	if !ok {
		return nil, nil, ""
	}
	v, ok := fr.vals[fa.X]
	if !ok {
		v = fr.val(fa.X)
	}
	return v, n, st.Field(fa.Field).Name()
}

func (fr *Frame) lockInvs(n *types.Named, field string) []*LockInv {
	if n == nil || n.Obj().Pkg() == nil {
		return nil
	}
	pc := fr.vc.eng.contracts[n.Obj().Pkg().Path()]
	if pc == nil {
		return nil
	}
	var out []*LockInv
	for _, li := range pc.LockInvs {
		if li.Type == n.Obj().Name() && li.Mutex == field {
			out = append(out, li)
		}
	}
	return out
}

func (fr *Frame) lockInvEnv(obj *Val, n *types.Named) *SpecEnv {
	k := 7000 + len(fr.vc.cmds)
	entry := fr.entry
	if entry == nil {
		entry = fr.st
	}
	return &SpecEnv{fr: fr, vars: map[string]*Val{"self": obj}, cur: fr.st, old: entry, pkg: fr.vc.eng.spkgs[n.Obj().Pkg().Path()], nq: &k}
}

// onAcquire: the monitor invariant of the lock holds when it is acquired.
func (fr *Frame) onAcquire(id Term, write bool, pos token.Pos) {
	arg := fr.curLockArg
	fr.curLockArg = nil
	obj, n, field := fr.lockOwner(arg)
	for _, li := range fr.lockInvs(n, field) {
		t, err := fr.evalSpecBool(li.Clause.Expr, fr.lockInvEnv(obj, n))
		if err != nil {
			fr.vc.specError(fr, li.Clause, err)
			continue
		}
		fr.vc.assume(fr.reach, t)
	}
}

// onRelease: the monitor invariant must be re-established before a write lock is released.
func (fr *Frame) onRelease(id Term, write bool, pos token.Pos) {
	arg := fr.curLockArg
	fr.curLockArg = nil
	if !write {
		return
	}
	obj, n, field := fr.lockOwner(arg)
	for i, li := range fr.lockInvs(n, field) {
		t, err := fr.evalSpecBool(li.Clause.Expr, fr.lockInvEnv(obj, n))
		if err != nil {
			fr.vc.specError(fr, li.Clause, err)
			continue
		}
		p := fr.pos(pos)
		src := fr.vc.eng.srcLine(p)
		name := fmt.Sprintf("%s/lockinv#%d@Unlock#%s", relFuncName(fr.vc.fn), i+1, hash4(src))
		fr.vc.oblige("lockinv", name, p, li.Clause.Text, fr.reach, t, li.Clause.Props)
	}
}
func (fr *Frame) onCondWait(id Term, pos token.Pos)                       {}
