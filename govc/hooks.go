package main

import (
	"os"
	"fmt"
	"sort"
	"strings"
	"go/token"
	"go/types"

	"golang.org/x/tools/go/ssa"
)

// Extension points used by the lock-discipline (C09), monitor-invariant and
// channel-invariant machinery. The base engine leaves them empty.


// ---------------------------------------------------------------- guarded-by (C09)

// guardFor finds the `guarded T.mu: f...` declaration covering field `field` of struct type n.
func (fr *Frame) guardFor(n *types.Named, field string) *GuardDecl {
	if n == nil || n.Obj().Pkg() == nil {
		return nil
	}
	pc := fr.vc.eng.contracts[n.Obj().Pkg().Path()]
	if pc == nil {
		return nil
	}
	for _, g := range pc.Guarded {
		if g.Type != n.Obj().Name() || len(g.Props) == 0 {
			continue
		}
		for _, f := range g.Fields {
			if f == field {
				return g
			}
		}
	}
	return nil
}

// guardCheck emits the lock-discipline obligation for an access to x.field (x of type *n).
func (fr *Frame) guardCheck(obj *Val, n *types.Named, field string, write bool, pos token.Pos, what string) {
	g := fr.guardFor(n, field)
	if g == nil {
		return
	}
	if _, fresh := fr.vc.refLoops[obj.T]; fresh {
		return // the object was allocated by this very activation: not shared yet
	}
	k := 7900 + len(fr.vc.cmds)
	env := &SpecEnv{fr: fr, vars: map[string]*Val{"self": obj}, cur: fr.st, old: fr.st, pkg: fr.vc.eng.spkgs[n.Obj().Pkg().Path()], nq: &k}
	mu, err := env.selectField(obj, g.Mutex)
	if err != nil {
		return
	}
	id := mu.T
	if mu.S == SIface {
		id = sx("ival", mu.T)
	}
	cond := eq(sel(fr.lockW(), id), "1")
	kind := "guard.write"
	if !write {
		cond = or(cond, sx(">=", sel(fr.lockR(), id), "1"))
		kind = "guard.read"
	}
	p := fr.pos(pos)
	src := fr.vc.eng.srcLine(p)
	name := fmt.Sprintf("%s/%s@%s.%s%s#%s", relFuncName(fr.vc.fn), kind, n.Obj().Name(), field, what, hash4(src))
	if fr.fn != fr.vc.fn {
		name = fmt.Sprintf("%s/%s@%s:%s.%s%s#%s", relFuncName(fr.vc.fn), kind, relFuncName(fr.fn), n.Obj().Name(), field, what, hash4(src))
	}
	fr.vc.oblige(kind, name, p, src, fr.reach, cond, g.Props)
}

func (fr *Frame) fieldOf(v ssa.Value) (*Val, *types.Named, string) {
	if u, ok := v.(*ssa.UnOp); ok && u.Op == token.MUL {
		v = u.X
	}
	fa, ok := v.(*ssa.FieldAddr)
	if !ok {
		return nil, nil, ""
	}
	n := namedOf(fa.X.Type())
	if n == nil {
		return nil, nil, ""
	}
	st, ok := n.Underlying().(*types.Struct)
	if !ok {
		return nil, nil, ""
	}
	obj, ok := fr.vals[fa.X]
	if !ok {
		return nil, nil, ""
	}
	return obj, n, st.Field(fa.Field).Name()
}

// guardAccess: a load/store of a guarded field.
func (fr *Frame) guardAccess(l *Loc, write bool, pos token.Pos) {
	if fr.curAddr == nil {
		return
	}
	obj, n, field := fr.fieldOf(fr.curAddr)
	if n != nil {
		fr.guardCheck(obj, n, field, write, pos, "")
	}
}

// guardMapAccess: an operation on the contents of a map held in a guarded field.
func (fr *Frame) guardMapAccess(m ssa.Value, write bool, pos token.Pos) {
	obj, n, field := fr.fieldOf(m)
	what := "[]"
	// a map (or slice) taken out of a guarded map is part of the same guarded structure:
	// `chs := t.metadata[alias]; ... chs[node]` needs the lock for the second lookup too
	for depth := 0; n == nil && depth < 4; depth++ {
		switch x := m.(type) {
		case *ssa.Extract:
			m = x.Tuple
			continue
		case *ssa.Lookup:
			m = x.X
			what += "[]"
			obj, n, field = fr.fieldOf(m)
			continue
		}
		break
	}
	if n != nil {
		fr.guardCheck(obj, n, field, write, pos, what)
	}
}

// onMakeChan: ghost facts about a freshly made channel (e.g. its key) declared in the
// function's contract as `makechan N assume P(ch)`; sound because the channel is fresh and
// the ghost functions are otherwise unconstrained on it.
func (fr *Frame) onMakeChan(i *ssa.MakeChan, ref Term) {
	// an auto-inlined helper is part of its caller: the caller's clauses count the make(chan)
	// sites of the caller with the helpers' sites spliced in at their call sites
	own := fr.anchorOwner()
	fc := own.contr
	if fc == nil {
		fc = fr.vc.eng.contractOf(own.fn)
	}
	if fc == nil || len(fc.MakeChans) == 0 {
		return
	}
	sites := fr.vc.eng.flatMakeChans(own.fn, 0)
	ord := 0
	for k, m := range sites {
		if m == i {
			ord = k + 1
			break
		}
	}
	for _, c := range fc.MakeChans[ord] {
		env := own.specEnvAt(fr).bind("ch", &Val{T: ref, S: SInt, Typ: i.Type()})
		t, err := fr.evalSpecAssume(c.Expr, env)
		if err != nil {
			fr.vc.specError(fr, c, err)
			continue
		}
		fr.vc.assume(fr.reach, t)
		fr.vc.globalsUsed = append(fr.vc.globalsUsed, "ghost definition at make(chan) in "+relFuncName(fr.fn)+": "+c.Text)
	}
}

// flatMakeChans: the make(chan) sites of f in source order, with the sites of auto-inlined
// helpers in place of the calls to them.
func (e *Engine) flatMakeChans(f *ssa.Function, depth int) []*ssa.MakeChan {
	var ins []ssa.Instruction
	for _, b := range f.Blocks {
		for _, in := range b.Instrs {
			switch x := in.(type) {
			case *ssa.MakeChan:
				ins = append(ins, in)
			case *ssa.Call:
				if g := x.Call.StaticCallee(); g != nil && depth < 4 && g.Parent() == nil && e.contractOf(g) == nil && e.autoInline(g) {
					ins = append(ins, in)
				}
			}
		}
	}
	sort.SliceStable(ins, func(a, b int) bool { return ins[a].Pos() < ins[b].Pos() })
	var out []*ssa.MakeChan
	for _, in := range ins {
		switch x := in.(type) {
		case *ssa.MakeChan:
			out = append(out, x)
		case *ssa.Call:
			out = append(out, e.flatMakeChans(x.Call.StaticCallee(), depth+1)...)
		}
	}
	return out
}

// onAllocArray: `allocassume P(a)` of the executing function holds for every backing array it
// allocates (ownership-style ghost facts: the array id is new, so nothing else is known about it).
func (fr *Frame) onAllocArray(ref Term) {
	own := fr.anchorOwner()
	fc := own.contr
	if fc == nil {
		fc = fr.vc.eng.contractOf(own.fn)
	}
	if fc == nil {
		return
	}
	for _, c := range fc.AllocAssumes {
		env := own.specEnvAt(fr).bind("a", &Val{T: ref, S: SInt, Typ: types.Typ[types.Int]})
		t, err := fr.evalSpecAssume(c.Expr, env)
		if err != nil {
			fr.vc.specError(fr, c, err)
			continue
		}
		fr.vc.assume(fr.reach, t)
		fr.vc.globalsUsed = append(fr.vc.globalsUsed, "ghost definition for arrays allocated in "+relFuncName(fr.fn)+": "+c.Text)
	}
}

// capturedVal: a closure's free variable is a pointer to the captured variable's cell; contract
// expressions name the variable itself, so the cell is read (in state st).
func (fr *Frame) capturedVal(fv *ssa.FreeVar, cell *Val, st *State) *Val {
	pt, ok := fv.Type().Underlying().(*types.Pointer)
	if !ok {
		return cell
	}
	if isStruct(pt.Elem()) {
		return &Val{T: cell.T, S: SInt, Typ: pt.Elem(), Addr: true}
	}
	if isArray(pt.Elem()) {
		return cell
	}
	hn, hs := fr.U().ptrHeapT(pt.Elem())
	return fr.mkVal(sel(fr.vc.heap(st, hn, hs), cell.T), pt.Elem())
}

func (fr *Frame) contrOrLookup() *FuncContract {
	if fr.contr != nil {
		return fr.contr
	}
	return fr.vc.eng.contractOf(fr.fn)
}

// anchorOwner: the frame whose contract's anchored clauses, ghost variables and allocation
// assumptions apply at a program point of fr - fr itself, or, inside an auto-inlined helper, the
// nearest enclosing frame that is not one.
func (fr *Frame) anchorOwner() *Frame {
	for fr.auto && fr.parent != nil {
		fr = fr.parent
	}
	return fr
}

// specEnvAt: the owner's names (parameters, locals, ghost variables) over the current state of
// the frame cur that is executing inside it.
func (fr *Frame) specEnvAt(cur *Frame) *SpecEnv {
	if cur == fr {
		return fr.specEnvHere()
	}
	saved := fr.st
	fr.st = cur.st
	env := fr.specEnvHere()
	fr.st = saved
	return env
}

func (fr *Frame) specEnvHere() *SpecEnv {
	n := 8000 + len(fr.vc.cmds)
	vars := map[string]*Val{}
	for _, p := range fr.fn.Params {
		if v, ok := fr.vals[p]; ok {
			vars[p.Name()] = v
		}
	}
	for _, p := range fr.fn.FreeVars {
		if v, ok := fr.vals[p]; ok {
			vars[p.Name()] = fr.capturedVal(p, v, fr.st)
		}
	}
	entry := fr.entry
	if entry == nil {
		entry = fr.st
	}
	return &SpecEnv{fr: fr, vars: vars, cur: fr.st, old: entry, pkg: pkgOf(fr.fn), nq: &n}
}

func chanElem(v *Val) types.Type {
	if v == nil || v.Typ == nil {
		return nil
	}
	if c, ok := v.Typ.Underlying().(*types.Chan); ok {
		return c.Elem()
	}
	return nil
}

// onRecv: a received value satisfies the channel invariant when it is a genuine value:
// ok is true (comma-ok receive), or the channel is declared never-closed (chanopen), or
// the value is not the zero value a closed channel yields.
func (fr *Frame) onRecvOk(ch *Val, v *Val, ok Term, pos token.Pos) {
	okVal := boolVal("true") // `ok` in recv anchors: false when the value is the zero value of a closed channel
	if ok != "" {
		okVal = boolVal(ok)
	} else if fr.selectOk != "" {
		okVal = boolVal(fr.selectOk)
	}
	defer fr.ghostAfter("recv", fr.chanName(ch), map[string]*Val{"ch": ch, "v": v, "ok": okVal})
	if c, isDone := fr.ctxOfDoneChan(ch); isDone {
		// a receive from ctx.Done() only completes once ctx is done
		cd := fr.vc.heap(fr.st, ctxDoneHeap, ctxDoneSort)
		fr.vc.setHeap(fr.st, ctxDoneHeap, ctxDoneSort, ite(fr.reach, store(cd, c, "true"), cd))
		return
	}
	et := chanElem(ch)
	if et == nil {
		return
	}
	genuine := not(eq(v.T, fr.zero(et)))
	if ok != "" {
		genuine = ok
	}
	invs := fr.vc.eng.chanInvs(et)
	for _, ci := range invs {
		if !ci.Open {
			continue
		}
		env := fr.specEnvHere().bind("ch", ch)
		env.pkg = fr.vc.eng.spkgs[ci.PkgPath]
		t, err := fr.evalSpecAssume(ci.Clause.Expr, env)
		if err == nil {
			genuine = or(genuine, t)
		}
	}
	for _, ci := range invs {
		if ci.Open {
			continue
		}
		env := fr.specEnvHere().bind("ch", ch).bind("v", v)
		env.pkg = fr.vc.eng.spkgs[ci.PkgPath]
		t, err := fr.evalSpecAssume(ci.Clause.Expr, env)
		if err != nil {
			fr.vc.specError(fr, ci.Clause, err)
			continue
		}
		fr.vc.assume(fr.reach, imp(genuine, t))
		if ci.AssumeOnly {
			fr.vc.globalsUsed = append(fr.vc.globalsUsed, "chanassume "+ci.Elem+": "+ci.Clause.Text)
		}
	}
}

func (fr *Frame) onRecv(ch *Val, v *Val, pos token.Pos) { fr.onRecvOk(ch, v, "", pos) }

// onClose: a channel declared never-closed must not be closed.
func (fr *Frame) onClose(ch *Val, pos token.Pos) {
	et := chanElem(ch)
	if et == nil {
		return
	}
	for i, ci := range fr.vc.eng.chanInvs(et) {
		if !ci.Open {
			continue
		}
		env := fr.specEnvHere().bind("ch", ch)
		env.pkg = fr.vc.eng.spkgs[ci.PkgPath]
		t, err := fr.evalSpecBool(ci.Clause.Expr, env)
		if err != nil {
			fr.vc.specError(fr, ci.Clause, err)
			continue
		}
		p := fr.pos(pos)
		fr.vc.oblige("chanopen", fmt.Sprintf("%s/chanopen#%d@close#%s", relFuncName(fr.vc.fn), i+1, hash4(fr.vc.eng.srcLine(p))), p, "never closed: "+ci.Clause.Text, fr.reach, not(t), ci.Clause.Props)
	}
}

// onSend: a sent value must satisfy the channel invariant.
// chanName describes a channel value for anchors: the field it was loaded from, if any.
func (fr *Frame) chanName(ch *Val) string {
	t := ch.T
	if d, ok := fr.vc.defs[t]; ok {
		t = d
	}
	// (select H_pkg.T_field!k ref) -> field name
	if strings.HasPrefix(t, "(select H_") {
		f := strings.Fields(t)
		name := strings.TrimPrefix(f[1], "H_")
		if i := strings.LastIndexAny(name, "!@"); i >= 0 {
			name = name[:i]
		}
		if i := strings.LastIndex(name, "_"); i >= 0 {
			return name[i+1:]
		}
		return name
	}
	if strings.HasPrefix(t, "(ctx.done.ch") {
		return "ctx.Done"
	}
	return t
}

func (fr *Frame) onSend(ch *Val, v *Val, pos token.Pos) {
	canc := boolVal("false")
	if fr.sendCancellable {
		canc = boolVal("true")
	}
	nb := boolVal("false")
	if fr.sendNonBlocking {
		nb = boolVal("true")
	}
	fr.anchorAsserts("send", fr.chanName(ch), pos, map[string]*Val{"ch": ch, "v": v, "cancellable": canc, "nonblocking": nb})
	defer fr.ghostAfter("send", fr.chanName(ch), map[string]*Val{"ch": ch, "v": v, "cancellable": canc, "nonblocking": nb})
	et := chanElem(ch)
	if et == nil {
		return
	}
	for i, ci := range fr.vc.eng.chanInvs(et) {
		if ci.Open || ci.AssumeOnly {
			continue
		}
		env := fr.specEnvHere().bind("ch", ch).bind("v", v)
		env.pkg = fr.vc.eng.spkgs[ci.PkgPath]
		t, err := fr.evalSpecBool(ci.Clause.Expr, env)
		if err != nil {
			fr.vc.specError(fr, ci.Clause, err)
			continue
		}
		p := fr.pos(pos)
		src := fr.vc.eng.srcLine(p)
		fr.vc.oblige("chaninv", fmt.Sprintf("%s/chaninv#%d@send#%s", relFuncName(fr.vc.fn), i+1, hash4(src)), p, ci.Clause.Text, fr.reach, t, ci.Clause.Props)
	}
}
func (fr *Frame) onSelectCase(i *ssa.Select, idx int, ch *Val)            {}
func (fr *Frame) onRangeNext(r *ssa.Range, n *ssa.Next, ok, k, v *Val)    {}

// lockOwner resolves the mutex argument of a Lock/Unlock call to the object
// that embeds (or points to) it: (object, named struct type, mutex field name).
func (fr *Frame) lockOwner(arg ssa.Value) (*Val, *types.Named, string) {
	if arg == nil {
		return nil, nil, ""
	}
	if u, ok := arg.(*ssa.UnOp); ok && u.Op == token.MUL {
		arg = u.X
	}
	fa, ok := arg.(*ssa.FieldAddr)
	if !ok {
		return nil, nil, ""
	}
	n := namedOf(fa.X.Type())
	if n == nil {
		return nil, nil, ""
	}
	st, ok := n.Underlying().(*types.Struct)
	if !ok {
		return nil, nil, ""
	}
	v, ok := fr.vals[fa.X]
	if !ok {
		v = fr.val(fa.X)
	}
	return v, n, st.Field(fa.Field).Name()
}

func (fr *Frame) lockInvs(n *types.Named, field string) []*LockInv {
	if n == nil || n.Obj().Pkg() == nil {
		return nil
	}
	pc := fr.vc.eng.contracts[n.Obj().Pkg().Path()]
	if pc == nil {
		return nil
	}
	var out []*LockInv
	for _, li := range pc.LockInvs {
		if li.Type == n.Obj().Name() && li.Mutex == field {
			out = append(out, li)
		}
	}
	return out
}

func (fr *Frame) lockInvEnv(obj *Val, n *types.Named) *SpecEnv {
	k := 7000 + len(fr.vc.cmds)
	entry := fr.entry
	if entry == nil {
		entry = fr.st
	}
	return &SpecEnv{fr: fr, vars: map[string]*Val{"self": obj}, cur: fr.st, old: entry, pkg: fr.vc.eng.spkgs[n.Obj().Pkg().Path()], nq: &k}
}

// onAcquire: the monitor invariant of the lock holds when it is acquired.
func (fr *Frame) onAcquire(id Term, write bool, pos token.Pos) {
	arg := fr.curLockArg
	fr.curLockArg = nil
	obj, n, field := fr.lockOwner(arg)
	if field != "" {
		fr.anchorAsserts("lock", field, pos, nil)
	}
	// Re-acquiring a lock is an interference point: whatever this goroutine saw of the fields the
	// mutex guards in an earlier critical section may have been changed by others since; only the
	// rely conditions of the type and the monitor invariant are known about the new values.
	// A function contract may opt out with `stablebetweensections` (an assumption that is listed
	// in the evidence).
	if own := fr.anchorOwner(); own.contrOrLookup() != nil && own.contrOrLookup().StableBetweenSections {
		fr.vc.globalsUsed = append(fr.vc.globalsUsed, "no interference assumed between the critical sections of "+relFuncName(own.fn)+" (contract says `stablebetweensections`)")
	} else {
		fr.havocGuardedBy(obj, n, field, id)
	}
	lis := fr.lockInvs(n, field)
	var before *Obl
	if len(lis) > 0 && fr.vc.lemma == nil && os.Getenv("GOVC_NOCALLCOVER") == "" {
		p := fr.pos(pos)
		before = fr.vc.coverRel(fmt.Sprintf("%s/cover.lock.before@%s#%s", relFuncName(fr.vc.fn), field, hash4(fr.vc.eng.srcLine(p))), p, fr.reach, nil)
	}
	for _, li := range lis {
		t, err := fr.evalSpecAssume(li.Clause.Expr, fr.lockInvEnv(obj, n))
		if err != nil {
			fr.vc.specError(fr, li.Clause, err)
			continue
		}
		fr.vc.assume(fr.reach, t)
	}
	if before != nil {
		// vacuity guard: the monitor invariants assumed at the acquisition must not contradict what is known
		p := fr.pos(pos)
		fr.vc.coverRel(fmt.Sprintf("%s/cover.lock.after@%s#%s", relFuncName(fr.vc.fn), field, hash4(fr.vc.eng.srcLine(p))), p, fr.reach, before)
	}
}

// havocGuardedBy forgets the fields of obj that are declared guarded by its mutex `field`.
func (fr *Frame) havocGuardedBy(obj *Val, n *types.Named, field string, id Term) {
	if obj == nil || n == nil || n.Obj().Pkg() == nil || field == "" {
		return
	}
	pc := fr.vc.eng.contracts[n.Obj().Pkg().Path()]
	if pc == nil {
		return
	}
	st, ok := n.Underlying().(*types.Struct)
	if !ok {
		return
	}
	vc := fr.vc
	U := fr.U()
	before := fr.st.clone()
	touched := false
	// only a RE-acquisition within this activation: before its first acquisition the function has
	// not seen the guarded fields (guarded-by), and what its caller knew was already forgotten at
	// the call boundary
	again := vc.define("reacq", SBool, and(fr.reach, eq(sel(vc.heap(fr.st, lockRel, lockSort), id), "1")))
	for _, g := range pc.Guarded {
		if g.Type != n.Obj().Name() || g.Mutex != field {
			continue
		}
		for _, fname := range g.Fields {
			for i := 0; i < st.NumFields(); i++ {
				if st.Field(i).Name() != fname || isStruct(st.Field(i).Type()) {
					continue
				}
				hn := fieldHeapName(n, i)
				hs := arrSort(SInt, U.sortOf(st.Field(i).Type()))
				h := vc.heap(fr.st, hn, hs)
				fr.markDirty(hn, "")
				nv := fr.freshVal("acq."+fname, st.Field(i).Type())
				vc.setHeap(fr.st, hn, hs, ite(again, store(h, obj.T, nv.T), h))
				touched = true
			}
		}
	}
	if !touched {
		return
	}
	for _, c := range pc.Relies[n.Obj().Name()] {
		k := 7900 + len(vc.cmds)
		env := &SpecEnv{fr: fr, vars: map[string]*Val{"self": obj}, cur: fr.st, old: before, pkg: fr.vc.eng.spkgs[n.Obj().Pkg().Path()], nq: &k}
		t, err := fr.evalSpecAssume(c.Expr, env)
		if err == nil {
			vc.assume(again, t)
		}
	}
}

// onRelease: the monitor invariant must be re-established before a write lock is released.
func (fr *Frame) onRelease(id Term, write bool, pos token.Pos) {
	arg := fr.curLockArg
	fr.curLockArg = nil
	obj, n, field := fr.lockOwner(arg)
	if field != "" {
		fr.anchorAsserts("unlock", field, pos, nil)
		defer fr.ghostAfter("unlock", field, map[string]*Val{})
	}
	if !write {
		return
	}
	for i, li := range fr.lockInvs(n, field) {
		t, err := fr.evalSpecBool(li.Clause.Expr, fr.lockInvEnv(obj, n))
		if err != nil {
			fr.vc.specError(fr, li.Clause, err)
			continue
		}
		p := fr.pos(pos)
		src := fr.vc.eng.srcLine(p)
		name := fmt.Sprintf("%s/lockinv#%d@Unlock#%s", relFuncName(fr.vc.fn), i+1, hash4(src))
		fr.vc.oblige("lockinv", name, p, li.Clause.Text, fr.reach, t, li.Clause.Props)
	}
}


// anchorAsserts emits the function contract's `assert <anchor>: P` clauses for a site.
// kind is "send", "call", "lock" or "unlock"; what is the callee / mutex field name.
func (fr *Frame) anchorAsserts(kind, what string, pos token.Pos, bind map[string]*Val) {
	own := fr.anchorOwner()
	fc := own.contr
	if fc == nil {
		fc = fr.vc.eng.contractOf(own.fn)
	}
	if fc == nil || len(fc.Asserts) == 0 {
		return
	}
	var anchors []string
	for a := range fc.Asserts {
		anchors = append(anchors, a)
	}
	sort.Strings(anchors)
	for _, a := range anchors {
		f := strings.SplitN(a, " ", 2)
		if f[0] != kind {
			continue
		}
		if len(f) == 2 && !anchorMatch(what, f[1]) && !own.anchorIsLocalChan(kind, f[1], bind) {
			continue
		}
		if fr.vc.anchorHit == nil {
			fr.vc.anchorHit = map[string]bool{}
		}
		fr.vc.anchorHit[fc.Key+"|assert|"+a] = true
		if fr.vc.lemma == nil && os.Getenv("GOVC_NOCALLCOVER") == "" {
			// vacuity guard: an anchored assertion states something only if its program point is reachable
			claimed := false
			for _, c := range fc.Asserts[a] {
				if c.Kind != "forbid" && (fr.vc.prop == "" || hasProp(c.Props, fr.vc.prop)) {
					claimed = true
				}
			}
			if claimed {
				p := fr.pos(pos)
				fr.vc.coverRel(fmt.Sprintf("%s/cover.anchor@%s#%s", relFuncName(fr.vc.fn), strings.ReplaceAll(a, " ", "."), hash4(fr.vc.eng.srcLine(p))), p, fr.reach, nil)
			}
		}
		for i, c := range fc.Asserts[a] {
			env := own.specEnvAt(fr)
			for k, v := range bind {
				env = env.bind(k, v)
			}
			t, err := fr.evalSpecBool(c.Expr, env)
			if err != nil {
				fr.vc.specError(fr, c, err)
				continue
			}
			p := fr.pos(pos)
			src := fr.vc.eng.srcLine(p)
			fr.vc.oblige("assert", fmt.Sprintf("%s/assert#%d@%s#%s", relFuncName(fr.vc.fn), i+1, strings.ReplaceAll(a, " ", "."), hash4(src)), p, c.Text, fr.reach, t, c.Props)
		}
	}
}


// onCondWait: Cond.Wait releases the lock, so the fields guarded by the owner's mutexes may
// have been changed by other goroutines when it returns: they are havocked, and only the
// declared rely conditions (two-state) and monitor invariants are known afterwards.
func (fr *Frame) onCondWait(id Term, pos token.Pos) {
	arg := fr.curLockArg
	fr.curLockArg = nil
	obj, n, _ := fr.lockOwner(arg)
	if n == nil || n.Obj().Pkg() == nil {
		return
	}
	pc := fr.vc.eng.contracts[n.Obj().Pkg().Path()]
	if pc == nil {
		return
	}
	vc := fr.vc
	U := fr.U()
	before := fr.st.clone()
	st, _ := n.Underlying().(*types.Struct)
	for _, g := range pc.Guarded {
		if g.Type != n.Obj().Name() {
			continue
		}
		for _, fname := range g.Fields {
			for i := 0; i < st.NumFields(); i++ {
				if st.Field(i).Name() != fname || isStruct(st.Field(i).Type()) {
					continue
				}
				hn := fieldHeapName(n, i)
				hs := arrSort(SInt, U.sortOf(st.Field(i).Type()))
				h := vc.heap(fr.st, hn, hs)
				fr.markDirty(hn, "")
				nv := fr.freshVal("wait."+fname, st.Field(i).Type())
				vc.setHeap(fr.st, hn, hs, store(h, obj.T, nv.T))
			}
		}
	}
	for _, c := range pc.Relies[n.Obj().Name()] {
		k := 7500 + len(vc.cmds)
		env := &SpecEnv{fr: fr, vars: map[string]*Val{"self": obj}, cur: fr.st, old: before, pkg: fr.vc.eng.spkgs[n.Obj().Pkg().Path()], nq: &k}
		t, err := fr.evalSpecAssume(c.Expr, env)
		if err != nil {
			vc.specError(fr, c, err)
			continue
		}
		vc.assume(fr.reach, t)
		vc.globalsUsed = append(vc.globalsUsed, "rely "+n.Obj().Name()+": "+c.Text)
	}
}


// interference models the other goroutines at the boundary of a call to a method of an
// object with lock-guarded fields: unless the caller holds the guarding mutex, the guarded
// fields may have changed since the caller last looked, subject to the type's rely conditions.
func (fr *Frame) interference(recv *Val, rt types.Type) {
	n := namedOf(rt)
	if n == nil || n.Obj().Pkg() == nil {
		return
	}
	pc := fr.vc.eng.contracts[n.Obj().Pkg().Path()]
	if pc == nil {
		return
	}
	st, ok := n.Underlying().(*types.Struct)
	if !ok {
		return
	}
	vc := fr.vc
	U := fr.U()
	for _, g := range pc.Guarded {
		if g.Type != n.Obj().Name() {
			continue
		}
		k := 7700 + len(vc.cmds)
		env := &SpecEnv{fr: fr, vars: map[string]*Val{"self": recv}, cur: fr.st, old: fr.st, pkg: fr.vc.eng.spkgs[n.Obj().Pkg().Path()], nq: &k}
		mu, err := env.selectField(recv, g.Mutex)
		if err != nil {
			continue
		}
		id := mu.T
		if mu.S == SIface {
			id = sx("ival", mu.T)
		}
		free := vc.define("interf", SBool, and(fr.reach, eq(sel(fr.lockW(), id), "0"), eq(sel(fr.lockR(), id), "0")))
		before := fr.st.clone()
		for _, fname := range g.Fields {
			for i := 0; i < st.NumFields(); i++ {
				if st.Field(i).Name() != fname || isStruct(st.Field(i).Type()) {
					continue
				}
				hn := fieldHeapName(n, i)
				hs := arrSort(SInt, U.sortOf(st.Field(i).Type()))
				h := vc.heap(fr.st, hn, hs)
				fr.markDirty(hn, "")
				nv := fr.freshVal("interf."+fname, st.Field(i).Type())
				vc.setHeap(fr.st, hn, hs, ite(free, store(h, recv.T, nv.T), h))
			}
		}
		for _, c := range pc.Relies[n.Obj().Name()] {
			k2 := 7800 + len(vc.cmds)
			renv := &SpecEnv{fr: fr, vars: map[string]*Val{"self": recv}, cur: fr.st, old: before, pkg: fr.vc.eng.spkgs[n.Obj().Pkg().Path()], nq: &k2}
			t, err := fr.evalSpecAssume(c.Expr, renv)
			if err == nil {
				vc.assume(free, t)
			}
		}
	}
}


// ---------------------------------------------------------------- ghost variables

func (fr *Frame) topContract() (*Frame, *FuncContract) {
	for f := fr; f != nil; f = f.parent {
		fc := f.contr
		if fc == nil {
			fc = f.vc.eng.contractOf(f.fn)
		}
		if fc != nil && len(fc.GhostVars) > 0 {
			return f, fc
		}
	}
	return nil, nil
}

func (fr *Frame) ghostVarDecl(name string) *GhostVar {
	fc := fr.contr
	if fc == nil && fr.vc != nil && fr.fn != nil {
		fc = fr.vc.eng.contractOf(fr.fn)
	}
	if fc == nil {
		return nil
	}
	for _, g := range fc.GhostVars {
		if g.Name == name {
			return g
		}
	}
	return nil
}

func (fr *Frame) ghostVarHeap(g *GhostVar, env *SpecEnv) (string, Sort, types.Type, error) {
	te, err := parserParseExpr(g.Type)
	if err != nil {
		return "", "", nil, err
	}
	t, err := env.resolveType(te)
	if err != nil {
		return "", "", nil, err
	}
	var s Sort = SInt
	if t != nil {
		s = fr.U().sortOf(t)
	}
	return "$ghost|" + fr.key + "|" + g.Name, s, t, nil
}

// coerceGhost: the untyped nil literal takes the zero value of the ghost variable's type.
func (fr *Frame) coerceGhost(v *Val, s Sort, t types.Type) *Val {
	if v.S != s && v.T == "0" && t != nil && s != SInt {
		return &Val{T: fr.zero(t), S: s, Typ: t}
	}
	return v
}

// initGhostVars gives the ghost variables of the function their initial values (at entry).
func (fr *Frame) initGhostVars() {
	fc := fr.contr
	if fc == nil {
		fc = fr.vc.eng.contractOf(fr.fn)
	}
	if fc == nil {
		return
	}
	for _, g := range fc.GhostVars {
		env := fr.specEnvHere()
		hn, s, gt, err := fr.ghostVarHeap(g, env)
		if err != nil {
			fr.vc.specError(fr, g.Init, err)
			continue
		}
		v, err := env.eval(g.Init.Expr)
		if err != nil {
			fr.vc.specError(fr, g.Init, err)
			continue
		}
		v = fr.coerceGhost(v, s, gt)
		if v.S != s {
			fr.vc.specError(fr, g.Init, fmt.Errorf("ghost variable %s has sort %s, initial value has sort %s", g.Name, s, v.S))
			continue
		}
		fr.vc.setHeap(fr.st, hn, s, v.T)
	}
}

// ghostAfter applies the `after <anchor>: v = e` updates of the function's contract.
// anchorMatch: an anchor pattern is a substring of the program point's name; a trailing `$`
// requires it to be a suffix (`call connStatus).CompareAndSwap$` does not match CompareAndSwapNot).
func anchorMatch(what, pat string) bool {
	if strings.HasSuffix(pat, "$") {
		return strings.HasSuffix(what, strings.TrimSuffix(pat, "$"))
	}
	return strings.Contains(what, pat)
}

// anchorIsLocalChan: a send/recv anchor may name the channel by the local variable that holds it.
func (fr *Frame) anchorIsLocalChan(kind, name string, bind map[string]*Val) bool {
	if kind != "send" && kind != "recv" {
		return false
	}
	ch := bind["ch"]
	if ch == nil || !isIdent(name) {
		return false
	}
	v := fr.localByName(name, fr.st)
	return v != nil && v.T == ch.T
}

func isIdent(s string) bool {
	for i, r := range s {
		if !(r == '_' || r >= 'a' && r <= 'z' || r >= 'A' && r <= 'Z' || i > 0 && r >= '0' && r <= '9') {
			return false
		}
	}
	return s != ""
}

func (fr *Frame) ghostAfter(kind, what string, bind map[string]*Val) {
	own := fr.anchorOwner()
	fc := own.contr
	if fc == nil {
		fc = fr.vc.eng.contractOf(own.fn)
	}
	if fc == nil {
		return
	}
	for _, u := range fc.Afters {
		f := strings.SplitN(u.Anchor, " ", 2)
		if f[0] != kind {
			continue
		}
		if len(f) == 2 && !anchorMatch(what, f[1]) && !own.anchorIsLocalChan(kind, f[1], bind) {
			continue
		}
		if fr.vc.anchorHit == nil {
			fr.vc.anchorHit = map[string]bool{}
		}
		fr.vc.anchorHit[fc.Key+"|after|"+u.Anchor] = true
		g := own.ghostVarDecl(u.Var)
		if g == nil {
			fr.vc.specError(fr, u.Expr, fmt.Errorf("unknown ghost variable %s", u.Var))
			continue
		}
		env := own.specEnvAt(fr)
		for k, v := range bind {
			env = env.bind(k, v)
		}
		hn, s, gt, err := own.ghostVarHeap(g, env)
		if err != nil {
			fr.vc.specError(fr, u.Expr, err)
			continue
		}
		v, err := env.eval(u.Expr.Expr)
		if err != nil {
			fr.vc.specError(fr, u.Expr, err)
			continue
		}
		v = fr.coerceGhost(v, s, gt)
		if v.S != s {
			fr.vc.specError(fr, u.Expr, fmt.Errorf("ghost variable %s has sort %s, assigned value has sort %s", u.Var, s, v.S))
			continue
		}
		old := fr.vc.heap(fr.st, hn, s)
		fr.vc.setHeap(fr.st, hn, s, ite(fr.reach, v.T, old))
	}
}
