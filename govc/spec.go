package main

import (
	"fmt"
	"go/ast"
	"go/constant"
	"go/token"
	"go/types"
	"strconv"
	"strings"

	"golang.org/x/tools/go/ssa"
)

// SpecEnv is the environment in which a contract expression is evaluated.
type SpecEnv struct {
	fr      *Frame
	vars    map[string]*Val
	cur     *State
	old     *State
	pkg     *ssa.Package
	results []*Val
	resNames []string
	nq      *int
	visHeap map[string]string // loop: range value name -> visited heap
	li      *loopInfo
	assumeMode bool
	facts   *[]Term // well-formedness facts about references read while evaluating
}

func (env *SpecEnv) withState(st *State) *SpecEnv {
	n := *env
	n.cur = st
	return &n
}

func (env *SpecEnv) bind(name string, v *Val) *SpecEnv {
	n := *env
	n.vars = map[string]*Val{}
	for k, x := range env.vars {
		n.vars[k] = x
	}
	n.vars[name] = v
	return &n
}

// evalSpecAssume evaluates a clause that is going to be assumed (polarity matters only for
// how well-formedness facts about quantified reads are attached, never for soundness).
func (fr *Frame) evalSpecAssume(e ast.Expr, env *SpecEnv) (Term, error) {
	ne := *env
	ne.assumeMode = true
	return fr.evalSpecBool(e, &ne)
}

func (fr *Frame) evalSpecBool(e ast.Expr, env *SpecEnv) (Term, error) {
	var facts []Term
	ne := *env
	ne.facts = &facts
	v, err := ne.eval(e)
	if err != nil {
		return "", err
	}
	if v.S != SBool {
		return "", fmt.Errorf("contract expression is not boolean (sort %s)", v.S)
	}
	// the collected facts are instances of the heap well-formedness invariant
	// ("every reference stored in a heap version is allocated"): valid, so they may be assumed
	for _, f := range dedupe(facts) {
		if i := strings.Index(f, "\x00"); i >= 0 {
			f = f[:i]
		}
		fr.vc.assume("true", f)
	}
	return v.T, nil
}

func dedupe(ts []Term) []Term {
	seen := map[Term]bool{}
	var out []Term
	for _, t := range ts {
		if !seen[t] {
			seen[t] = true
			out = append(out, t)
		}
	}
	return out
}

// refFact records that a reference read from heapTerm is allocated. The instance fact is
// followed (after a "\x00" separator) by the general axiom for the whole heap version, which is
// used instead when the instance mentions a quantified variable.
func (env *SpecEnv) refFact(v Term, typ types.Type, heapTerm Term) {
	if env.facts == nil || typ == nil {
		return
	}
	isSlice := false
	switch tt := typ.Underlying().(type) {
	case *types.Pointer, *types.Map, *types.Chan, *types.Signature:
	case *types.Slice:
		isSlice = true
	case *types.Basic:
		// integer-typed heap cells hold values of their type's range
		if tt.Info()&types.IsInteger == 0 {
			return
		}
		lo, hi := intRange(tt)
		hs := env.vc().sortOfHeapTerm(heapTerm)
		axiom := ""
		if strings.HasPrefix(hs, "(Array Int Int") || hs == "(Array Int Int)" {
			e := sel(heapTerm, "r!w")
			axiom = fmt.Sprintf("(forall ((r!w Int)) (! (and (<= %s %s) (<= %s %s)) :pattern (%s)))", lo, e, e, hi, e)
		}
		*env.facts = append(*env.facts, and(sx("<=", lo, v), sx("<=", v, hi))+"\x00"+axiom)
		return
	default:
		return
	}
	ref := v
	if isSlice {
		ref = sx("sarr", v)
	}
	bound := env.vc().allocBound(heapTerm, env.heap("$alloc", SInt))
	hs := env.vc().sortOfHeapTerm(heapTerm)
	axiom := ""
	wrap := func(t Term) Term {
		if isSlice {
			return sx("sarr", t)
		}
		return t
	}
	switch {
	case strings.HasPrefix(hs, "(Array Int (Array "):
		// two-level heap (map values / slice elements): (Array Int (Array K V))
		inner := strings.TrimSuffix(strings.TrimPrefix(hs, "(Array Int "), ")")
		ks := arrayKeySort(inner)
		if ks != "" {
			e := sel(sel(heapTerm, "m!w"), "k!w")
			axiom = fmt.Sprintf("(forall ((m!w Int) (k!w %s)) (! (<= %s %s) :pattern (%s)))", ks, wrap(e), bound, e)
		}
	case strings.HasPrefix(hs, "(Array Int "):
		e := sel(heapTerm, "r!w")
		axiom = fmt.Sprintf("(forall ((r!w Int)) (! (<= %s %s) :pattern (%s)))", wrap(e), bound, e)
	}
	*env.facts = append(*env.facts, sx("<=", ref, bound)+"\x00"+axiom)
}

// arrayKeySort extracts K from "(Array K V)".
func arrayKeySort(s Sort) Sort {
	s = strings.TrimPrefix(s, "(Array ")
	if strings.HasPrefix(s, "(") {
		depth := 0
		for i, c := range s {
			if c == '(' {
				depth++
			} else if c == ')' {
				depth--
				if depth == 0 {
					return s[:i+1]
				}
			}
		}
		return ""
	}
	if i := strings.Index(s, " "); i > 0 {
		return s[:i]
	}
	return ""
}

func (env *SpecEnv) U() *Universe { return env.fr.vc.U }
func (env *SpecEnv) vc() *VC      { return env.fr.vc }

func (env *SpecEnv) heap(name string, s Sort) Term { return env.vc().heap(env.cur, name, s) }

func mathInt(t Term) *Val { return &Val{T: t, S: SInt} }
func boolVal(t Term) *Val { return &Val{T: t, S: SBool, Typ: types.Typ[types.Bool]} }

func (env *SpecEnv) eval(e ast.Expr) (*Val, error) {
	switch x := e.(type) {
	case *ast.ParenExpr:
		return env.eval(x.X)
	case *ast.BasicLit:
		switch x.Kind {
		case token.INT:
			v := constant.MakeFromLiteral(x.Value, token.INT, 0)
			return mathInt(v.ExactString()), nil
		case token.STRING:
			s, err := strconv.Unquote(x.Value)
			if err != nil {
				return nil, err
			}
			return &Val{T: env.U().strConst(s), S: SStr, Typ: types.Typ[types.String]}, nil
		case token.CHAR:
			s, _ := strconv.Unquote(x.Value)
			return mathInt(fmt.Sprint(int([]rune(s)[0]))), nil
		}
		return nil, fmt.Errorf("unsupported literal %s", x.Value)
	case *ast.Ident:
		return env.ident(x.Name)
	case *ast.SelectorExpr:
		if id, ok := x.X.(*ast.Ident); ok {
			if _, isVar := env.vars[id.Name]; !isVar {
				if p := env.importedPkg(id.Name); p != nil {
					return env.pkgObject(p, x.Sel.Name)
				}
			}
		}
		base, err := env.eval(x.X)
		if err != nil {
			return nil, err
		}
		return env.selectField(base, x.Sel.Name)
	case *ast.StarExpr:
		p, err := env.eval(x.X)
		if err != nil {
			return nil, err
		}
		return env.derefVal(p)
	case *ast.UnaryExpr:
		v, err := env.eval(x.X)
		if err != nil {
			return nil, err
		}
		switch x.Op {
		case token.NOT:
			return boolVal(not(v.T)), nil
		case token.SUB:
			return mathInt(sx("-", v.T)), nil
		case token.AND:
			if v.Addr {
				return &Val{T: v.T, S: SInt, Typ: types.NewPointer(v.Typ)}, nil
			}
		}
		return nil, fmt.Errorf("unsupported unary %s", x.Op)
	case *ast.BinaryExpr:
		return env.binary(x)
	case *ast.IndexExpr:
		base, err := env.eval(x.X)
		if err != nil {
			return nil, err
		}
		idx, err := env.eval(x.Index)
		if err != nil {
			return nil, err
		}
		return env.index(base, idx)
	case *ast.CallExpr:
		return env.callExpr(x)
	}
	return nil, fmt.Errorf("unsupported contract expression %T", e)
}

func (env *SpecEnv) ident(name string) (*Val, error) {
	switch name {
	case "true":
		return boolVal("true"), nil
	case "false":
		return boolVal("false"), nil
	case "nil":
		return &Val{T: "0", S: SInt, IsNil: true}, nil
	}
	if v, ok := env.vars[name]; ok {
		// a parameter that the body assigns to is spilled to a local cell by go/ssa: outside old()
		// its name denotes the CURRENT content of that cell, not the value passed in
		if env.fr != nil && env.fr.params != nil && env.fr.params[name] == v && env.cur != env.old && env.cur != env.fr.entry && env.li == nil {
			if cv := env.fr.spilledParam(name, env.cur); cv != nil {
				return cv, nil
			}
		}
		return v, nil
	}
	if name == "result" && len(env.results) == 1 {
		return env.results[0], nil
	}
	if strings.HasPrefix(name, "result") {
		if n, err := strconv.Atoi(name[6:]); err == nil && n < len(env.results) {
			return env.results[n], nil
		}
	}
	for i, rn := range env.resNames {
		if rn == name && i < len(env.results) {
			return env.results[i], nil
		}
	}
	if gv := env.fr.ghostVarDecl(name); gv != nil {
		hn, s, t, err := env.fr.ghostVarHeap(gv, env)
		if err != nil {
			return nil, err
		}
		return &Val{T: env.heap(hn, s), S: s, Typ: t}, nil
	}
	if env.li != nil {
		if v := env.fr.loopLocal(env.li, name, env.cur); v != nil {
			return v, nil
		}
	} else if v := env.fr.localByName(name, env.cur); v != nil {
		return v, nil
	}
	if env.pkg != nil {
		return env.pkgObject(env.pkg.Pkg, name)
	}
	return nil, fmt.Errorf("unresolved identifier %q", name)
}

func (env *SpecEnv) importedPkg(name string) *types.Package {
	if env.pkg == nil {
		return nil
	}
	if path, ok := env.fr.vc.eng.importAlias[env.pkg.Pkg.Path()][name]; ok {
		for _, p := range env.pkg.Pkg.Imports() {
			if p.Path() == path {
				return p
			}
		}
	}
	for _, p := range env.pkg.Pkg.Imports() {
		if p.Name() == name {
			return p
		}
	}
	// aliases commonly used in the repository
	for _, p := range env.pkg.Pkg.Imports() {
		if strings.HasSuffix(p.Path(), "/"+name) {
			return p
		}
	}
	if name == "math" || name == "time" {
		for _, p := range env.fr.vc.eng.prog.AllPackages() {
			if p.Pkg.Path() == name {
				return p.Pkg
			}
		}
	}
	return nil
}

func (env *SpecEnv) pkgObject(p *types.Package, name string) (*Val, error) {
	obj := p.Scope().Lookup(name)
	if obj == nil {
		return nil, fmt.Errorf("unresolved identifier %s.%s", p.Name(), name)
	}
	switch o := obj.(type) {
	case *types.Const:
		return env.constVal(o.Val(), o.Type())
	case *types.Var:
		s := env.U().sortOf(o.Type())
		hn := "G|" + p.Path() + "." + name
		return &Val{T: env.heap(hn, s), S: s, Typ: o.Type()}, nil
	}
	return nil, fmt.Errorf("%s.%s is not a constant or variable", p.Name(), name)
}

func (env *SpecEnv) constVal(c constant.Value, t types.Type) (*Val, error) {
	switch c.Kind() {
	case constant.Bool:
		if constant.BoolVal(c) {
			return boolVal("true"), nil
		}
		return boolVal("false"), nil
	case constant.String:
		return &Val{T: env.U().strConst(constant.StringVal(c)), S: SStr, Typ: t}, nil
	case constant.Int:
		s := c.ExactString()
		if strings.HasPrefix(s, "-") {
			s = "(- " + s[1:] + ")"
		}
		return &Val{T: s, S: SInt, Typ: t}, nil
	}
	return nil, fmt.Errorf("unsupported constant kind")
}

// selectField resolves v.name through embedded fields.
func (env *SpecEnv) selectField(v *Val, name string) (*Val, error) {
	if v.Typ == nil {
		return nil, fmt.Errorf("selector .%s on untyped value", name)
	}
	T := v.Typ
	if v.Addr {
		T = types.NewPointer(v.Typ)
	}
	var pkg *types.Package
	if env.pkg != nil {
		pkg = env.pkg.Pkg
	}
	obj, index, _ := types.LookupFieldOrMethod(T, true, pkg, name)
	if obj == nil {
		// try with the package of the named type (unexported fields of other module packages)
		if n := namedOf(T); n != nil && n.Obj().Pkg() != nil {
			obj, index, _ = types.LookupFieldOrMethod(T, true, n.Obj().Pkg(), name)
		}
	}
	fv, ok := obj.(*types.Var)
	if !ok || !fv.IsField() {
		return nil, fmt.Errorf("no field %s in %s", name, T)
	}
	cur := v
	for _, i := range index {
		var err error
		cur, err = env.fieldStep(cur, i)
		if err != nil {
			return nil, err
		}
	}
	return cur, nil
}

func namedOf(t types.Type) *types.Named {
	for {
		switch tt := t.(type) {
		case *types.Pointer:
			t = tt.Elem()
		case *types.Named:
			return tt
		case *types.Alias:
			t = types.Unalias(tt)
		default:
			return nil
		}
	}
}

func (env *SpecEnv) fieldStep(cur *Val, i int) (*Val, error) {
	U := env.U()
	T := cur.Typ
	isRef := cur.Addr
	if p, ok := T.Underlying().(*types.Pointer); ok && !cur.Addr {
		T = p.Elem()
		isRef = true
	}
	st, ok := T.Underlying().(*types.Struct)
	if !ok {
		return nil, fmt.Errorf("field selection on non-struct %s", T)
	}
	ft := st.Field(i).Type()
	if isRef {
		hn := fieldHeapName(T, i)
		if isStruct(ft) {
			return &Val{T: env.vc().faddr(hn, cur.T), S: SInt, Typ: ft, Addr: true}, nil
		}
		s := U.sortOf(ft)
		ht := env.heap(hn, arrSort(SInt, s))
		env.refFact(sel(ht, cur.T), ft, ht)
		return &Val{T: sel(ht, cur.T), S: s, Typ: ft}, nil
	}
	info := U.structInfo[U.sortOf(T)]
	return &Val{T: sx(info.Fields[i], cur.T), S: U.sortOf(ft), Typ: ft}, nil
}

// rvalue materialises a struct value from its address.
func (env *SpecEnv) rvalue(v *Val) *Val {
	if !v.Addr {
		return v
	}
	return &Val{T: env.loadStructAt(v.T, v.Typ), S: env.U().sortOf(v.Typ), Typ: v.Typ}
}

func (env *SpecEnv) loadStructAt(ref Term, t types.Type) Term {
	U := env.U()
	st := t.Underlying().(*types.Struct)
	info := U.structInfo[U.sortOf(t)]
	if st.NumFields() == 0 {
		return info.Ctor
	}
	var fs []Term
	for i := 0; i < st.NumFields(); i++ {
		ft := st.Field(i).Type()
		hn := fieldHeapName(t, i)
		if isStruct(ft) {
			fs = append(fs, env.loadStructAt(env.vc().faddr(hn, ref), ft))
		} else {
			fs = append(fs, sel(env.heap(hn, arrSort(SInt, U.sortOf(ft))), ref))
		}
	}
	return sx(info.Ctor, fs...)
}

func (env *SpecEnv) derefVal(p *Val) (*Val, error) {
	if p.Typ == nil {
		return nil, fmt.Errorf("deref of untyped value")
	}
	pt, ok := p.Typ.Underlying().(*types.Pointer)
	if !ok {
		return nil, fmt.Errorf("deref of non-pointer %s", p.Typ)
	}
	if isStruct(pt.Elem()) {
		return &Val{T: p.T, S: SInt, Typ: pt.Elem(), Addr: true}, nil
	}
	s := env.U().sortOf(pt.Elem())
	phn, phs := env.U().ptrHeapT(pt.Elem())
	return &Val{T: sel(env.heap(phn, phs), p.T), S: s, Typ: pt.Elem()}, nil
}

func (env *SpecEnv) index(base, idx *Val) (*Val, error) {
	U := env.U()
	if base.Typ == nil {
		return nil, fmt.Errorf("index on untyped value")
	}
	switch t := base.Typ.Underlying().(type) {
	case *types.Map:
		idx = env.rvalue(idx)
		mh := env.fr.mapHeaps(base.Typ)
		has := env.fr.mapHas(env.cur, base.T, mh, idx.T)
		mv := ite(has, env.fr.mapGet(env.cur, base.T, mh, idx.T), env.fr.zero(t.Elem()))
		env.refFact(mv, t.Elem(), env.heap(mh.val, mh.valS))
		return &Val{T: mv, S: mh.vs, Typ: t.Elem()}, nil
	case *types.Slice:
		es := U.sortOf(t.Elem())
		hn, hs := U.elemHeapT(t.Elem())
		env.refFact(sel(sel(env.heap(hn, hs), sx("sarr", base.T)), sx("eidx", sx("soff", base.T), idx.T)), t.Elem(), env.heap(hn, hs))
		return &Val{T: sel(sel(env.heap(hn, hs), sx("sarr", base.T)), sx("eidx", sx("soff", base.T), idx.T)), S: es, Typ: t.Elem()}, nil
	case *types.Array:
		return &Val{T: sx("aget!"+base.S, base.T, idx.T), S: U.sortOf(t.Elem()), Typ: t.Elem()}, nil
	}
	return nil, fmt.Errorf("index on %s", base.Typ)
}

func isNilVal(v *Val) bool { return v.IsNil }

func (env *SpecEnv) equal(a, b *Val) (Term, error) {
	if a.IsNil && b.IsNil {
		return "true", nil
	}
	if b.IsNil {
		a, b = b, a
	}
	if a.IsNil {
		b = env.rvalue(b)
		switch b.S {
		case SSlice:
			return eq(sx("sarr", b.T), "0"), nil
		case SIface:
			return eq(b.T, "(mkI 0 0)"), nil
		case SInt:
			return eq(b.T, "0"), nil
		}
		return "", fmt.Errorf("comparison of %s with nil", b.S)
	}
	a, b = env.rvalue(a), env.rvalue(b)
	if a.S != b.S {
		return "", fmt.Errorf("comparison of different sorts %s and %s", a.S, b.S)
	}
	return eq(a.T, b.T), nil
}

func (env *SpecEnv) binary(x *ast.BinaryExpr) (*Val, error) {
	a, err := env.eval(x.X)
	if err != nil {
		return nil, err
	}
	b, err := env.eval(x.Y)
	if err != nil {
		return nil, err
	}
	switch x.Op {
	case token.LAND:
		return boolVal(and(a.T, b.T)), nil
	case token.LOR:
		return boolVal(or(a.T, b.T)), nil
	case token.EQL:
		t, err := env.equal(a, b)
		return boolVal(t), err
	case token.NEQ:
		t, err := env.equal(a, b)
		return boolVal(not(t)), err
	case token.LSS:
		return boolVal(sx("<", a.T, b.T)), nil
	case token.LEQ:
		return boolVal(sx("<=", a.T, b.T)), nil
	case token.GTR:
		return boolVal(sx(">", a.T, b.T)), nil
	case token.GEQ:
		return boolVal(sx(">=", a.T, b.T)), nil
	case token.ADD:
		return mathInt(sx("+", a.T, b.T)), nil
	case token.SUB:
		return mathInt(sx("-", a.T, b.T)), nil
	case token.MUL:
		return mathInt(sx("*", a.T, b.T)), nil
	case token.QUO:
		return mathInt(sx("div", a.T, b.T)), nil
	case token.REM:
		return mathInt(sx("mod", a.T, b.T)), nil
	}
	return nil, fmt.Errorf("unsupported binary operator %s", x.Op)
}

func (env *SpecEnv) freshBound(name string) string {
	*env.nq++
	return fmt.Sprintf("q!%s!%d", sanitize(name), *env.nq)
}

func (env *SpecEnv) resolveType(e ast.Expr) (types.Type, error) {
	switch x := e.(type) {
	case *ast.Ident:
		if x.Name == "ref" {
			return types.Typ[types.UnsafePointer], nil
		}
		if x.Name == "mathint" {
			return nil, nil
		}
		if o := types.Universe.Lookup(x.Name); o != nil {
			if tn, ok := o.(*types.TypeName); ok {
				return tn.Type(), nil
			}
		}
		if env.pkg != nil {
			if o := env.pkg.Pkg.Scope().Lookup(x.Name); o != nil {
				if tn, ok := o.(*types.TypeName); ok {
					return tn.Type(), nil
				}
			}
		}
	case *ast.SelectorExpr:
		if id, ok := x.X.(*ast.Ident); ok {
			if p := env.importedPkg(id.Name); p != nil {
				if o := p.Scope().Lookup(x.Sel.Name); o != nil {
					if tn, ok := o.(*types.TypeName); ok {
						return tn.Type(), nil
					}
				}
			}
		}
	case *ast.StarExpr:
		t, err := env.resolveType(x.X)
		if err != nil {
			return nil, err
		}
		return types.NewPointer(t), nil
	case *ast.ArrayType:
		t, err := env.resolveType(x.Elt)
		if err != nil {
			return nil, err
		}
		if x.Len == nil {
			return types.NewSlice(t), nil
		}
	case *ast.ChanType:
		t, err := env.resolveType(x.Value)
		if err != nil {
			return nil, err
		}
		return types.NewChan(types.SendRecv, t), nil
	case *ast.MapType:
		k, err := env.resolveType(x.Key)
		if err != nil {
			return nil, err
		}
		v, err := env.resolveType(x.Value)
		if err != nil {
			return nil, err
		}
		return types.NewMap(k, v), nil
	}
	return nil, fmt.Errorf("cannot resolve type %s", types.ExprString(e))
}

func (env *SpecEnv) callExpr(c *ast.CallExpr) (*Val, error) {
	fn, ok := c.Fun.(*ast.Ident)
	if !ok {
		return nil, fmt.Errorf("unsupported call in contract: %s", types.ExprString(c.Fun))
	}
	U := env.U()
	arg := func(i int) (*Val, error) {
		if i >= len(c.Args) {
			return nil, fmt.Errorf("%s: missing argument %d", fn.Name, i)
		}
		return env.eval(c.Args[i])
	}
	switch fn.Name {
	case "old":
		if env.old == nil {
			return nil, fmt.Errorf("old() not available here")
		}
		return env.withState(env.old).eval(c.Args[0])
	case "imp", "iff":
		a, err := arg(0)
		if err != nil {
			return nil, err
		}
		b, err := arg(1)
		if err != nil {
			return nil, err
		}
		if fn.Name == "imp" {
			return boolVal(imp(a.T, b.T)), nil
		}
		return boolVal(eq(a.T, b.T)), nil
	case "ite":
		cnd, err := arg(0)
		if err != nil {
			return nil, err
		}
		a, err := arg(1)
		if err != nil {
			return nil, err
		}
		b, err := arg(2)
		if err != nil {
			return nil, err
		}
		r := *a
		r.T = ite(cnd.T, a.T, b.T)
		return &r, nil
	case "forall", "exists":
		if len(c.Args) != 3 {
			return nil, fmt.Errorf("%s(x, T, body) expected", fn.Name)
		}
		id, ok := c.Args[0].(*ast.Ident)
		if !ok {
			return nil, fmt.Errorf("%s: bound variable must be an identifier", fn.Name)
		}
		t, err := env.resolveType(c.Args[1])
		if err != nil {
			return nil, err
		}
		bn := env.freshBound(id.Name)
		var bv *Val
		var s Sort = SInt
		wf := "true"
		if t != nil {
			s = U.sortOf(t)
			bv = &Val{T: bn, S: s, Typ: t}
			if b, ok := t.Underlying().(*types.Basic); ok && b.Kind() == types.UnsafePointer {
				bv.Typ = nil
			} else {
				wf = env.fr.wfAlloc(bn, t, env.heap("$alloc", SInt), 0)
			}
		} else {
			bv = mathInt(bn)
		}
		var inner []Term
		benv := env.bind(id.Name, bv)
		if env.facts != nil {
			benv.facts = &inner
		}
		body, err := benv.eval(c.Args[2])
		if err != nil {
			return nil, err
		}
		// facts that mention the bound variable stay inside the quantifier (they are valid, so
		// guarding the body with them changes nothing semantically); the others move out
		// a fact that mentions the bound variable cannot leave the quantifier: it is replaced by
		// the general well-formedness axiom of the heap version it was read from
		var local []Term // valid facts that mention the bound variable and have no heap-level axiom
		for _, f := range dedupe(inner) {
			inst, axiom := f, ""
			if i := strings.Index(f, "\x00"); i >= 0 {
				inst, axiom = f[:i], f[i+1:]
			}
			if env.facts == nil {
				continue
			}
			if strings.Contains(inst, bn) {
				if axiom != "" {
					*env.facts = append(*env.facts, axiom)
				} else {
					local = append(local, inst)
				}
			} else {
				*env.facts = append(*env.facts, f)
			}
		}
		if fn.Name == "forall" {
			if env.assumeMode {
				return boolVal(fmt.Sprintf("(forall ((%s %s)) %s)", bn, s, imp(wf, and(append(local, body.T)...)))), nil
			}
			return boolVal(fmt.Sprintf("(forall ((%s %s)) %s)", bn, s, imp(and(append([]Term{wf}, local...)...), body.T))), nil
		}
		return boolVal(fmt.Sprintf("(exists ((%s %s)) %s)", bn, s, and(append([]Term{wf}, append(local, body.T)...)...))), nil
	case "len", "cap":
		a, err := arg(0)
		if err != nil {
			return nil, err
		}
		switch a.S {
		case SSlice:
			if fn.Name == "cap" {
				return mathInt(sx("scap", a.T)), nil
			}
			return mathInt(sx("slen", a.T)), nil
		case SStr:
			return mathInt(sx("strlen", a.T)), nil
		}
		if a.Typ != nil {
			if _, ok := a.Typ.Underlying().(*types.Map); ok {
				return mathInt(env.fr.mapLen(env.cur, a.T, env.fr.mapHeaps(a.Typ))), nil
			}
			if _, ok := a.Typ.Underlying().(*types.Chan); ok && fn.Name == "cap" {
				env.fr.U().declFun("chan.cap", "(declare-fun chan.cap (Int) Int)")
				return mathInt(sx("chan.cap", a.T)), nil
			}
		}
		return nil, fmt.Errorf("len of %s", a.S)
	case "has":
		m, err := arg(0)
		if err != nil {
			return nil, err
		}
		k, err := arg(1)
		if err != nil {
			return nil, err
		}
		if m.Typ == nil {
			return nil, fmt.Errorf("has: untyped map")
		}
		if _, ok := m.Typ.Underlying().(*types.Map); !ok {
			return nil, fmt.Errorf("has: not a map: %s", m.Typ)
		}
		return boolVal(env.fr.mapHas(env.cur, m.T, env.fr.mapHeaps(m.Typ), env.rvalue(k).T)), nil
	case "held", "rheld", "unheld":
		mu, err := arg(0)
		if err != nil {
			return nil, err
		}
		id := mu.T
		if mu.S == SIface {
			id = sx("ival", mu.T)
		}
		w := sel(env.heap(lockW, lockSort), id)
		r := sel(env.heap(lockR, lockSort), id)
		switch fn.Name {
		case "held":
			return boolVal(eq(w, "1")), nil
		case "rheld":
			return boolVal(or(eq(w, "1"), sx(">=", r, "1"))), nil
		}
		return boolVal(and(eq(w, "0"), eq(r, "0"))), nil
	case "isconst":
		// isconst(x, T): x equals one of the constants declared with type T (read from go/types on every run)
		a, err := arg(0)
		if err != nil {
			return nil, err
		}
		t, err := env.resolveType(c.Args[1])
		if err != nil {
			return nil, err
		}
		n := namedOf(t)
		if n == nil || n.Obj().Pkg() == nil {
			return nil, fmt.Errorf("isconst: %s is not a named type", types.ExprString(c.Args[1]))
		}
		seen := map[string]bool{}
		var alts []Term
		sc := n.Obj().Pkg().Scope()
		for _, name := range sc.Names() {
			k, ok := sc.Lookup(name).(*types.Const)
			if !ok || !types.Identical(k.Type(), t) {
				continue
			}
			cv, err := env.constVal(k.Val(), k.Type())
			if err != nil || seen[cv.T] {
				continue
			}
			seen[cv.T] = true
			alts = append(alts, eq(a.T, cv.T))
		}
		if len(alts) == 0 {
			return nil, fmt.Errorf("isconst: no constants of type %s", t)
		}
		return boolVal(or(alts...)), nil
	case "done":
		// done(ctx): this goroutine has observed ctx to be done (monotone)
		a, err := arg(0)
		if err != nil {
			return nil, err
		}
		if a.S != SIface {
			return nil, fmt.Errorf("done: not a context")
		}
		return boolVal(sel(env.heap(ctxDoneHeap, ctxDoneSort), a.T)), nil
	case "lockid":
		mu, err := arg(0)
		if err != nil {
			return nil, err
		}
		if mu.S == SIface {
			return mathInt(sx("ival", mu.T)), nil
		}
		return mathInt(mu.T), nil
	case "unchanged":
		a, err := arg(0)
		if err != nil {
			return nil, err
		}
		if env.old == nil {
			return nil, fmt.Errorf("unchanged() not available here")
		}
		b, err := env.withState(env.old).eval(c.Args[0])
		if err != nil {
			return nil, err
		}
		t, err := env.equal(a, b)
		return boolVal(t), err
	case "fresh":
		a, err := arg(0)
		if err != nil {
			return nil, err
		}
		if env.old == nil {
			return nil, fmt.Errorf("fresh() not available here")
		}
		if a.S == SSlice {
			return boolVal(sx(">", sx("sarr", a.T), env.vc().heap(env.old, "$alloc", SInt))), nil
		}
		return boolVal(sx(">", a.T, env.vc().heap(env.old, "$alloc", SInt))), nil
	case "unixnano":
		// the Unix nanosecond count of a time.Time value (the only thing time values are modelled by)
		a, err := arg(0)
		if err != nil {
			return nil, err
		}
		if a.Addr && a.Typ != nil && isStruct(a.Typ) {
			// a struct-valued field of a heap object is denoted by its address: read the value
			saved := env.fr.st
			env.fr.st = env.cur
			a = env.fr.loadStruct(a.T, a.Typ)
			env.fr.st = saved
		}
		U.declFun("time.unixnano", fmt.Sprintf("(declare-fun time.unixnano (%s) Int)", a.S))
		return mathInt(sx("time.unixnano", a.T)), nil
	case "arrayof":
		// identity of the backing array of a slice (two slices alias iff they have the same array id)
		a, err := arg(0)
		if err != nil {
			return nil, err
		}
		if a.S != SSlice {
			return nil, fmt.Errorf("arrayof of %s", a.S)
		}
		return mathInt(sx("sarr", a.T)), nil
	case "nonnilcount":
		// number of non-nil entries of a slice of slices in the current state: an uninterpreted
		// function of the backing array's contents, constrained by the counting axioms
		// (store at one index changes the count by the nil-ness difference; 0 <= count <= len;
		// count == len implies no entry is nil; all entries nil implies count == 0), which are
		// machine-checked in Lean against a finite-set model (lean/Counting.lean).
		a, err := arg(0)
		if err != nil {
			return nil, err
		}
		a = env.rvalue(a)
		st, ok := a.Typ.Underlying().(*types.Slice)
		if !ok || a.S != SSlice || U.sortOf(st.Elem()) != SSlice {
			return nil, fmt.Errorf("nonnilcount wants a slice of slices")
		}
		hn, hs := U.elemHeapT(st.Elem())
		U.useNonNilCount()
		env.vc().externals["counting axioms of nonnilcount (a store changes the count by the fill difference; 0 <= count <= length; count == length implies no empty slot; an all-empty window counts 0): assumed by the SMT solvers, proved in Lean 4 + Mathlib for the finite-sum model in /verif/lean/Counting.lean (re-checked by ./check C14 on every run); that the SMT axiom text says the same as the Lean statements is by inspection"] = true
		return mathInt(sx("nncnt", sel(env.heap(hn, hs), sx("sarr", a.T)), sx("soff", a.T), sx("slen", a.T))), nil
	case "prefixlen":
		// prefixlen(s, i): total length of the first i entries of a slice of slices in the current
		// state (0 for i <= 0): an SMT function of the backing array's contents defined by primitive
		// recursion (psum a off 0 = 0; psum a off (i+1) = psum a off i + len(a[off+i]) for i >= 0)
		a, err := arg(0)
		if err != nil {
			return nil, err
		}
		i, err := arg(1)
		if err != nil {
			return nil, err
		}
		a = env.rvalue(a)
		st, ok := a.Typ.Underlying().(*types.Slice)
		if !ok || a.S != SSlice || U.sortOf(st.Elem()) != SSlice {
			return nil, fmt.Errorf("prefixlen wants a slice of slices")
		}
		hn, hs := U.elemHeapT(st.Elem())
		U.usePrefixLen()
		return mathInt(sx("psum", sel(env.heap(hn, hs), sx("sarr", a.T)), sx("soff", a.T), env.rvalue(i).T)), nil
	case "allocmark":
		// the allocation high-water mark of the current state: references are handed out in
		// increasing order, so `x > m` for a mark m taken earlier says x was allocated after that point
		return mathInt(env.heap("$alloc", SInt)), nil
	case "allocated":
		a, err := arg(0)
		if err != nil {
			return nil, err
		}
		return boolVal(sx("<=", a.T, env.heap("$alloc", SInt))), nil
	case "byteat", "be16", "be32":
		s, err := arg(0)
		if err != nil {
			return nil, err
		}
		off, err := arg(1)
		if err != nil {
			return nil, err
		}
		hn, hs := U.elemHeapT(types.Typ[types.Uint8])
		row := sel(env.heap(hn, hs), sx("sarr", s.T))
		at := func(k int) Term { return sel(row, sx("eidx", sx("soff", s.T), sx("+", off.T, num(int64(k))))) }
		switch fn.Name {
		case "byteat":
			return mathInt(at(0)), nil
		case "be16":
			return mathInt(sx("+", sx("*", at(0), "256"), at(1))), nil
		}
		return mathInt(sx("+", sx("*", sx("+", sx("*", sx("+", sx("*", at(0), "256"), at(1)), "256"), at(2)), "256"), at(3))), nil
	case "captured":
		// captured(T): the one variable of type T that the closure under contract captures - a name for
		// it that survives the renaming of the enclosing function's locals
		if len(c.Args) != 1 || env.fr == nil {
			return nil, fmt.Errorf("captured(T) wants one type and a closure")
		}
		t, err := env.resolveType(c.Args[0])
		if err != nil {
			return nil, err
		}
		var found *Val
		for _, fv := range env.fr.fn.FreeVars {
			pt, ok := fv.Type().Underlying().(*types.Pointer)
			if !ok || !types.Identical(pt.Elem(), t) {
				continue
			}
			if found != nil {
				return nil, fmt.Errorf("captured(%s): more than one captured variable of that type", types.ExprString(c.Args[0]))
			}
			cell, ok := env.fr.vals[fv]
			if !ok {
				continue
			}
			st := env.cur
			if st == nil {
				st = env.fr.st
			}
			found = env.fr.capturedVal(fv, cell, st)
		}
		if found == nil {
			return nil, fmt.Errorf("captured(%s): no captured variable of that type", types.ExprString(c.Args[0]))
		}
		return found, nil
	case "typeis":
		a, err := arg(0)
		if err != nil {
			return nil, err
		}
		t, err := env.resolveType(c.Args[1])
		if err != nil {
			return nil, err
		}
		return boolVal(eq(sx("itag", a.T), num(int64(U.tagOf(t))))), nil
	case "unbox":
		a, err := arg(0)
		if err != nil {
			return nil, err
		}
		t, err := env.resolveType(c.Args[1])
		if err != nil {
			return nil, err
		}
		if env.facts != nil {
			switch t.Underlying().(type) {
			case *types.Pointer, *types.Map, *types.Chan:
				// a reference held in an interface value is allocated
				*env.facts = append(*env.facts, imp(eq(sx("itag", a.T), num(int64(U.tagOf(t)))), sx("<=", sx("ival", a.T), env.heap("$alloc", SInt)))+"\x00")
			}
		}
		return &Val{T: env.fr.ifaceUnbox(a.T, t), S: U.sortOf(t), Typ: t}, nil
	case "visited":
		if env.li == nil {
			return nil, fmt.Errorf("visited() outside loop invariant")
		}
		k, err := arg(0)
		if err != nil {
			return nil, err
		}
		name, ks := env.fr.loopVisHeap(env.li)
		if name == "" {
			return nil, fmt.Errorf("visited(): loop is not a map range")
		}
		return boolVal(sel(env.heap(name, arrSort(ks, SBool)), env.rvalue(k).T)), nil
	case "visitedcount":
		if env.li == nil {
			return nil, fmt.Errorf("visitedcount() outside loop invariant")
		}
		name, _ := env.fr.loopVisHeap(env.li)
		if name == "" {
			return nil, fmt.Errorf("visitedcount(): loop is not a map range")
		}
		return mathInt(env.heap(name+"#count", SInt)), nil
	case "int":
		return arg(0)
	case "sameheap":
		// sameheap(): every in-module heap is unchanged since entry -- used for "nothing sent/stored"
		return nil, fmt.Errorf("sameheap unsupported")
	}
	// define macro
	if d := env.fr.vc.eng.findDefine(env.pkg, fn.Name); d != nil {
		if len(d.Params) != len(c.Args) {
			return nil, fmt.Errorf("%s: wrong number of arguments", fn.Name)
		}
		ne := env
		for i, p := range d.Params {
			v, err := env.eval(c.Args[i])
			if err != nil {
				return nil, err
			}
			ne = ne.bind(p, v)
		}
		return ne.eval(d.Expr)
	}
	// ghost function
	if g := env.fr.vc.eng.findGhost(env.pkg, fn.Name); g != nil {
		return env.ghostApp(g, c)
	}
	return nil, fmt.Errorf("unknown contract function %s", fn.Name)
}

func (env *SpecEnv) ghostApp(g *GhostFunc, c *ast.CallExpr) (*Val, error) {
	U := env.U()
	if len(g.Params) != len(c.Args) {
		return nil, fmt.Errorf("%s: wrong number of arguments", g.Name)
	}
	var sorts []string
	var args []Term
	genv := env
	if gp := env.fr.vc.eng.spkgs[g.Pkg]; gp != nil && gp != env.pkg {
		ne := *env
		ne.pkg = gp
		genv = &ne
	}
	for i, p := range g.Params {
		pe, err := parseTypeExpr(p)
		if err != nil {
			return nil, err
		}
		var s Sort = SInt
		t, err := genv.resolveType(pe)
		if err != nil {
			return nil, err
		}
		if t != nil {
			s = U.sortOf(t)
		}
		sorts = append(sorts, s)
		v, err := env.eval(c.Args[i])
		if err != nil {
			return nil, err
		}
		v = env.rvalue(v)
		if v.S != s {
			return nil, fmt.Errorf("%s: argument %d has sort %s, want %s", g.Name, i, v.S, s)
		}
		args = append(args, v.T)
	}
	var rs Sort = SInt
	var rt types.Type
	if g.Result != "" {
		re, err := parseTypeExpr(g.Result)
		if err != nil {
			return nil, err
		}
		rt, err = genv.resolveType(re)
		if err != nil {
			return nil, err
		}
		if rt != nil {
			rs = U.sortOf(rt)
		}
	}
	name := "ghost!" + sanitize(g.Pkg) + "!" + g.Name
	U.declFun(name, fmt.Sprintf("(declare-fun %s (%s) %s)", name, strings.Join(sorts, " "), rs))
	return &Val{T: sx(name, args...), S: rs, Typ: rt}, nil
}

func parseTypeExpr(s string) (ast.Expr, error) {
	return parserParseExpr(s)
}
