package main

import (
	"fmt"
	"go/ast"
	"go/parser"
	"os"
	"path/filepath"
	"regexp"
	"strconv"
	"strings"
)

// Clause is one contract expression with the properties it serves.
type Clause struct {
	Text  string
	Expr  ast.Expr
	Props []string
	File  string
	Line  int
	Kind  string
	Explicit bool // the clause names its properties itself (`requires[C10] ...`)
}

type FuncContract struct {
	Key          string
	PkgPath      string
	Props        []string
	Requires     []*Clause
	Ensures      []*Clause
	Modifies     []*Clause
	HasModifies  bool
	Inline       bool
	NoPanic      bool
	NoPanicProps []string
	NoPanicKinds map[string][]string // `nopanic[Cxx] typeassert nil ...`: only these kinds of implicit obligation are claimed (under Cxx)
	Loops        map[int][]*Clause
	AltLoops     map[int][]*Clause // `loop N altinvariant`: a second, complete invariant set for loop N, tried when the first does not prove the function
	Acquires     []*Clause
	Releases     []*Clause
	Asserts      map[string][]*Clause // anchor -> clauses (e.g. "call:sent.Remove")
	Ghosts       []*Clause
	File         string
	Line         int
	IsIface      bool
	Trusted      bool // contract assumed at call sites, body not verified (listed in evidence)
	LockFree     bool
	LockProps    []string // `lockbalance[Cxx]`: the lock-pairing obligations of this function also serve these properties
	Recovers     bool
	Implied      bool // synthesized from the `recoverguard` of the function that defers this one
	RecoverGuard bool
	RecoverGuardProps []string
	GhostVars    []*GhostVar
	Afters       []*GhostUpdate
	MakeChans    map[int][]*Clause // ghost facts fixed at the n-th make(chan) of the function
	StableBetweenSections bool     // `stablebetweensections`: opt out of the interference model at lock re-acquisition (assumption, listed)
	AllocAssumes []*Clause         // ghost facts fixed for every backing array the function allocates (make / growing append); `a` = array id
}

type GhostFunc struct {
	Name   string
	Params []string // type expressions
	Result string
	Pkg    string
}

type PkgContracts struct {
	PkgPath  string
	Dir      string
	File     string
	Funcs    map[string]*FuncContract
	Order    []string
	TypeInvs map[string][]*Clause
	TypeAssumes map[string][]*Clause // assumed for pointer params, never proved (listed in evidence)
	Ghosts   map[string]*GhostFunc
	Axioms   []*Clause
	Globals  []*Clause
	Initials []*Clause // `initial[Cxx] X.f == c`: like `global`, but checked against the package-level initialiser
	Guarded  []*GuardDecl
	CondLocked []*GuardDecl // `condlocked[Cxx] T.f`: Signal/Broadcast on the condition variable T.f only with its L held
	LockInvs []*LockInv
	Closed   map[string]bool
	Defines  map[string]*Define
	Pure     map[string]bool // package-level function variables assumed pure and non-nil
	Lemmas   []*Lemma
	ChanInvs []*ChanInv
	Relies   map[string][]*Clause
	CancelOf map[string]string // "T.cancelField" -> ctx field
}

// GhostVar is a function-local ghost variable; GhostUpdate assigns it at an anchor.
type GhostVar struct {
	Name string
	Type string
	Init *Clause
}

type GhostUpdate struct {
	Anchor string
	Var    string
	Expr   *Clause
}

// ChanInv: every value v sent on a channel ch whose element type is Elem satisfies Clause.
type ChanInv struct {
	Elem     string
	Clause   *Clause
	PkgPath  string
	resolved string
	Open     bool // "never closed" predicate instead of a value invariant
	AssumeOnly bool
}

// Lemma is a proof obligation over the composition of real functions: the
// named functions are symbolically executed (inlined) in sequence.
type Lemma struct {
	Name    string
	PkgPath string
	Props   []string
	Steps   []LemmaStep
	InlineAll bool // callees of the lemma package are executed, not replaced by their contracts
	File    string
	Line    int
}

type LemmaStep struct {
	Kind   string // forall | let | requires | ensures
	Names  []string
	Text   string
	Expr   ast.Expr
	Clause *Clause
	Line   int
}

// Define is a spec-level macro: define name(a,b): expr
type Define struct {
	Name   string
	Params []string
	Expr   ast.Expr
	Text   string
}

type GuardDecl struct {
	Type   string // struct type name
	Mutex  string // field path of the mutex
	Fields []string
	Props  []string
	Line   int
}

type LockInv struct {
	Type   string
	Mutex  string
	Clause *Clause
}

var clauseRe = regexp.MustCompile(`^([a-z\-]+)(\[[A-Za-z0-9, ]*\])?(\s+|$)(.*)$`)

func parseProps(s string) []string {
	s = strings.Trim(s, "[]")
	var out []string
	for _, p := range strings.FieldsFunc(s, func(r rune) bool { return r == ',' || r == ' ' }) {
		if p != "" {
			out = append(out, p)
		}
	}
	return out
}

// ParseContracts reads <dir>/contracts_verif.go (comment-only sidecar).
func ParseContracts(dir, pkgPath string) (*PkgContracts, error) {
	file := filepath.Join(dir, "contracts_verif.go")
	data, err := os.ReadFile(file)
	if err != nil {
		return nil, err
	}
	pc := &PkgContracts{PkgPath: pkgPath, Dir: dir, File: file, Funcs: map[string]*FuncContract{}, TypeInvs: map[string][]*Clause{}, TypeAssumes: map[string][]*Clause{}, Ghosts: map[string]*GhostFunc{}, Closed: map[string]bool{}, Defines: map[string]*Define{}, Pure: map[string]bool{}, Relies: map[string][]*Clause{}, CancelOf: map[string]string{}}
	var cur *FuncContract
	var curLemma *Lemma
	lines := strings.Split(string(data), "\n")
	// join continuation lines: a line "//@ ..." ending with " \" continues
	type ln struct {
		text string
		no   int
	}
	var ls []ln
	for i := 0; i < len(lines); i++ {
		l := strings.TrimSpace(lines[i])
		if !strings.HasPrefix(l, "//@") {
			continue
		}
		t := strings.TrimSpace(strings.TrimPrefix(l, "//@"))
		no := i + 1
		for strings.HasSuffix(t, "\\") && i+1 < len(lines) {
			i++
			nx := strings.TrimSpace(lines[i])
			nx = strings.TrimSpace(strings.TrimPrefix(nx, "//@"))
			t = strings.TrimSuffix(t, "\\") + " " + nx
		}
		if t == "" || strings.HasPrefix(t, "#") {
			continue
		}
		ls = append(ls, ln{t, no})
	}
	mkClause := func(kind, props, text string, no int) (*Clause, error) {
		// strip trailing "// comment"
		if i := strings.Index(text, " // "); i >= 0 {
			text = strings.TrimSpace(text[:i])
		}
		e, err := parser.ParseExpr(text)
		if err != nil {
			return nil, fmt.Errorf("%s:%d: cannot parse %q: %v", file, no, text, err)
		}
		return &Clause{Text: text, Expr: e, Props: parseProps(props), File: file, Line: no, Kind: kind, Explicit: len(parseProps(props)) > 0}, nil
	}
	for _, l := range ls {
		m := clauseRe.FindStringSubmatch(l.text)
		if m == nil {
			return nil, fmt.Errorf("%s:%d: cannot parse %q", file, l.no, l.text)
		}
		kw, props, rest := m[1], m[2], strings.TrimSpace(m[4])
		switch kw {
		case "lemma":
			lm := &Lemma{Name: rest, PkgPath: pkgPath, File: file, Line: l.no, Props: parseProps(props)}
			pc.Lemmas = append(pc.Lemmas, lm)
			curLemma = lm
			cur = nil
		case "inlineall":
			if curLemma != nil {
				curLemma.InlineAll = true
			}
		case "forall":
			if curLemma == nil {
				return nil, fmt.Errorf("%s:%d: forall outside lemma", file, l.no)
			}
			f := strings.Fields(rest)
			if len(f) < 2 {
				return nil, fmt.Errorf("%s:%d: forall <name> <type>", file, l.no)
			}
			curLemma.Steps = append(curLemma.Steps, LemmaStep{Kind: "forall", Names: []string{f[0]}, Text: strings.TrimSpace(rest[len(f[0]):]), Line: l.no})
		case "let":
			if curLemma == nil {
				return nil, fmt.Errorf("%s:%d: let outside lemma", file, l.no)
			}
			i := strings.Index(rest, "=")
			var names []string
			for _, n := range strings.Split(rest[:i], ",") {
				names = append(names, strings.TrimSpace(n))
			}
			e, err := parser.ParseExpr(strings.TrimSpace(rest[i+1:]))
			if err != nil {
				return nil, fmt.Errorf("%s:%d: %v", file, l.no, err)
			}
			curLemma.Steps = append(curLemma.Steps, LemmaStep{Kind: "let", Names: names, Expr: e, Text: rest, Line: l.no})
		case "func", "iface":
			curLemma = nil
			key := rest
			if i := strings.Index(key, " //"); i >= 0 {
				key = strings.TrimSpace(key[:i])
			}
			cur = &FuncContract{Key: key, PkgPath: pkgPath, Loops: map[int][]*Clause{}, Asserts: map[string][]*Clause{}, File: file, Line: l.no, IsIface: kw == "iface", Props: parseProps(props)}
			if _, dup := pc.Funcs[key]; dup {
				return nil, fmt.Errorf("%s:%d: duplicate contract for %s", file, l.no, key)
			}
			pc.Funcs[key] = cur
			pc.Order = append(pc.Order, key)
		case "props":
			if cur == nil && curLemma != nil {
				curLemma.Props = append(curLemma.Props, strings.Fields(rest)...)
			}
			if cur != nil {
				cur.Props = append(cur.Props, strings.Fields(rest)...)
			}
		case "requires", "ensures", "trustedensures", "acquires", "releases":
			if cur == nil && curLemma != nil && (kw == "requires" || kw == "ensures") {
				c, err := mkClause(kw, props, rest, l.no)
				if err != nil {
					return nil, err
				}
				if len(c.Props) == 0 {
					c.Props = curLemma.Props
				}
				curLemma.Steps = append(curLemma.Steps, LemmaStep{Kind: kw, Clause: c, Line: l.no})
				break
			}
			if cur == nil {
				return nil, fmt.Errorf("%s:%d: %s outside func", file, l.no, kw)
			}
			c, err := mkClause(kw, props, rest, l.no)
			if err != nil {
				return nil, err
			}
			if len(c.Props) == 0 {
				c.Props = cur.Props
			}
			switch kw {
			case "requires":
				cur.Requires = append(cur.Requires, c)
			case "ensures":
				cur.Ensures = append(cur.Ensures, c)
			case "trustedensures":
				// assumed at call sites, NOT proved against the body (listed in the evidence)
				cur.Ensures = append(cur.Ensures, c)
			case "acquires":
				cur.Acquires = append(cur.Acquires, c)
			case "releases":
				cur.Releases = append(cur.Releases, c)
			}
		case "modifies":
			if cur == nil {
				return nil, fmt.Errorf("%s:%d: modifies outside func", file, l.no)
			}
			cur.HasModifies = true
			if rest == "nothing" || rest == "" {
				break
			}
			for _, part := range strings.Split(rest, ";") {
				part = strings.TrimSpace(part)
				if part == "" {
					continue
				}
				c, err := mkClause(kw, props, part, l.no)
				if err != nil {
					return nil, err
				}
				if len(c.Props) == 0 {
					c.Props = cur.Props
				}
				cur.Modifies = append(cur.Modifies, c)
			}
		case "recovers":
			// the function is a deferred closure that recovers: verified with recover() returning a non-nil value
			cur.Recovers = true
		case "recoverguard":
			// the function's first deferred call is a `recovers` closure and nothing that can panic precedes it
			cur.RecoverGuard = true
			cur.RecoverGuardProps = parseProps(props)
			if len(cur.RecoverGuardProps) == 0 {
				cur.RecoverGuardProps = cur.Props
			}
		case "inline":
			cur.Inline = true
		case "trusted":
			cur.Trusted = true
		case "interference":
			// (default since the model became global; kept as a no-op so that contracts may say it explicitly)
		case "stablebetweensections":
			if cur == nil {
				return nil, fmt.Errorf("%s:%d: stablebetweensections outside func", file, l.no)
			}
			cur.StableBetweenSections = true
		case "nopanic":
			pp := parseProps(props)
			if len(pp) == 0 {
				pp = cur.Props
			}
			if kinds := strings.Fields(rest); len(kinds) > 0 {
				if cur.NoPanicKinds == nil {
					cur.NoPanicKinds = map[string][]string{}
				}
				for _, k := range kinds {
					switch k {
					case "bounds", "nil", "nilmap", "divzero", "typeassert", "makeslice", "panic":
					default:
						return nil, fmt.Errorf("%s:%d: nopanic: unknown obligation kind %q", file, l.no, k)
					}
					cur.NoPanicKinds[k] = append(cur.NoPanicKinds[k], pp...)
				}
				break
			}
			cur.NoPanic = true
			cur.NoPanicProps = pp
		case "loop":
			// loop N invariant <expr>
			f := strings.Fields(rest)
			if len(f) < 3 || !(strings.HasPrefix(f[1], "invariant") || strings.HasPrefix(f[1], "altinvariant")) {
				return nil, fmt.Errorf("%s:%d: bad loop clause", file, l.no)
			}
			n, err := strconv.Atoi(f[0])
			if err != nil {
				return nil, fmt.Errorf("%s:%d: bad loop ordinal", file, l.no)
			}
			p2 := ""
			if i := strings.Index(f[1], "["); i >= 0 {
				p2 = f[1][i:]
			}
			text := strings.TrimSpace(rest[strings.Index(rest, f[1])+len(f[1]):])
			c, err := mkClause("invariant", p2, text, l.no)
			if err != nil {
				return nil, err
			}
			if len(c.Props) == 0 {
				c.Props = cur.Props
			}
			if strings.HasPrefix(f[1], "altinvariant") {
				if cur.AltLoops == nil {
					cur.AltLoops = map[int][]*Clause{}
				}
				cur.AltLoops[n] = append(cur.AltLoops[n], c)
				break
			}
			cur.Loops[n] = append(cur.Loops[n], c)
		case "cancelof":
			// cancelof T.f: g   -- calling the function value x.f cancels the context x.g
			i := strings.Index(rest, ":")
			head := strings.TrimSpace(rest[:i])
			dot := strings.Index(head, ".")
			pc.CancelOf[head[:dot]+"."+head[dot+1:]] = strings.TrimSpace(rest[i+1:])
			cur = nil
		case "rely":
			// rely T: two-state predicate that every other goroutine preserves on objects of type T
			// (assumed across Cond.Wait, where the lock is released; the matching guarantee is
			// stated as contracts/asserts on the functions that write the fields)
			i := strings.Index(rest, ":")
			if i < 0 {
				return nil, fmt.Errorf("%s:%d: bad rely", file, l.no)
			}
			c, err := mkClause(kw, props, strings.TrimSpace(rest[i+1:]), l.no)
			if err != nil {
				return nil, err
			}
			tn := strings.TrimSpace(rest[:i])
			pc.Relies[tn] = append(pc.Relies[tn], c)
			cur = nil
		case "chanassume":
			// chanassume <elem type>: P(ch, v) -- assumed for every received value, never checked at sends (listed in evidence)
			i := strings.Index(rest, ":")
			if i < 0 {
				return nil, fmt.Errorf("%s:%d: bad chanassume", file, l.no)
			}
			c, err := mkClause(kw, props, strings.TrimSpace(rest[i+1:]), l.no)
			if err != nil {
				return nil, err
			}
			pc.ChanInvs = append(pc.ChanInvs, &ChanInv{Elem: strings.TrimSpace(rest[:i]), Clause: c, PkgPath: pkgPath, AssumeOnly: true})
			cur = nil
		case "chanopen":
			// chanopen <elem type>: P(ch)  -- channels satisfying P are never closed
			i := strings.Index(rest, ":")
			if i < 0 {
				return nil, fmt.Errorf("%s:%d: bad chanopen", file, l.no)
			}
			c, err := mkClause(kw, props, strings.TrimSpace(rest[i+1:]), l.no)
			if err != nil {
				return nil, err
			}
			pc.ChanInvs = append(pc.ChanInvs, &ChanInv{Elem: strings.TrimSpace(rest[:i]), Clause: c, PkgPath: pkgPath, Open: true})
			cur = nil
		case "chaninv":
			// chaninv <elem type>: P(ch, v)
			i := strings.Index(rest, ":")
			if i < 0 {
				return nil, fmt.Errorf("%s:%d: bad chaninv", file, l.no)
			}
			c, err := mkClause(kw, props, strings.TrimSpace(rest[i+1:]), l.no)
			if err != nil {
				return nil, err
			}
			pc.ChanInvs = append(pc.ChanInvs, &ChanInv{Elem: strings.TrimSpace(rest[:i]), Clause: c, PkgPath: pkgPath})
			cur = nil
		case "assert":
			// assert <anchor>: <expr>   anchor = send | call <substr> | lock <field> | unlock <field>
			if cur == nil {
				return nil, fmt.Errorf("%s:%d: assert outside func", file, l.no)
			}
			i := strings.Index(rest, ":")
			if i < 0 {
				return nil, fmt.Errorf("%s:%d: assert <anchor>: <expr>", file, l.no)
			}
			c, err := mkClause(kw, props, strings.TrimSpace(rest[i+1:]), l.no)
			if err != nil {
				return nil, err
			}
			if len(c.Props) == 0 {
				c.Props = cur.Props
			}
			anchor := strings.Join(strings.Fields(rest[:i]), " ")
			cur.Asserts[anchor] = append(cur.Asserts[anchor], c)
		case "forbid":
			// forbid <anchor>   -- no reachable program point may match the anchor (e.g. `forbid call foo`);
			// unlike `assert`, an anchor that matches nothing is the expected case.
			if cur == nil {
				return nil, fmt.Errorf("%s:%d: forbid outside func", file, l.no)
			}
			txt := rest
			if i := strings.Index(txt, " // "); i >= 0 {
				txt = strings.TrimSpace(txt[:i])
			}
			c, err := mkClause(kw, props, "false", l.no)
			if err != nil {
				return nil, err
			}
			c.Text = "forbid " + txt
			if len(c.Props) == 0 {
				c.Props = cur.Props
			}
			anchor := strings.Join(strings.Fields(txt), " ")
			cur.Asserts[anchor] = append(cur.Asserts[anchor], c)
		case "ghostvar":
			// ghostvar <name> <type> = <init expr>   (function-local ghost variable)
			if cur == nil {
				return nil, fmt.Errorf("%s:%d: ghostvar outside func", file, l.no)
			}
			f := strings.Fields(rest)
			eqi := strings.Index(rest, "=")
			if len(f) < 4 || eqi < 0 {
				return nil, fmt.Errorf("%s:%d: ghostvar <name> <type> = <expr>", file, l.no)
			}
			c, err := mkClause(kw, props, strings.TrimSpace(rest[eqi+1:]), l.no)
			if err != nil {
				return nil, err
			}
			cur.GhostVars = append(cur.GhostVars, &GhostVar{Name: f[0], Type: f[1], Init: c})
		case "after":
			// after <anchor>: <ghostvar> = <expr>    anchor = call <substr> | recv <substr> | send
			if cur == nil {
				return nil, fmt.Errorf("%s:%d: after outside func", file, l.no)
			}
			i := strings.Index(rest, ":")
			if i < 0 {
				return nil, fmt.Errorf("%s:%d: after <anchor>: <var> = <expr>", file, l.no)
			}
			body := strings.TrimSpace(rest[i+1:])
			eqi := strings.Index(body, "=")
			if eqi < 0 {
				return nil, fmt.Errorf("%s:%d: after <anchor>: <var> = <expr>", file, l.no)
			}
			c, err := mkClause(kw, props, strings.TrimSpace(body[eqi+1:]), l.no)
			if err != nil {
				return nil, err
			}
			anchor := strings.Join(strings.Fields(rest[:i]), " ")
			if len(c.Props) == 0 {
				c.Props = cur.Props // an unmatched `after` anchor is reported under the function's properties
			}
			cur.Afters = append(cur.Afters, &GhostUpdate{Anchor: anchor, Var: strings.TrimSpace(body[:eqi]), Expr: c})
		case "makechan":
			// makechan N assume P(ch)
			if cur == nil {
				return nil, fmt.Errorf("%s:%d: makechan outside func", file, l.no)
			}
			f := strings.Fields(rest)
			n, err := strconv.Atoi(f[0])
			if err != nil || len(f) < 3 || f[1] != "assume" {
				return nil, fmt.Errorf("%s:%d: makechan N assume <expr>", file, l.no)
			}
			c, err := mkClause(kw, props, strings.TrimSpace(rest[strings.Index(rest, "assume")+6:]), l.no)
			if err != nil {
				return nil, err
			}
			if cur.MakeChans == nil {
				cur.MakeChans = map[int][]*Clause{}
			}
			cur.MakeChans[n] = append(cur.MakeChans[n], c)
		case "allocassume":
			// allocassume P(a)  -- ghost definition for every backing array this function allocates
			if cur == nil {
				return nil, fmt.Errorf("%s:%d: allocassume outside func", file, l.no)
			}
			c, err := mkClause(kw, props, rest, l.no)
			if err != nil {
				return nil, err
			}
			cur.AllocAssumes = append(cur.AllocAssumes, c)
		case "typeassume":
			i := strings.Index(rest, ":")
			if i < 0 {
				return nil, fmt.Errorf("%s:%d: bad typeassume", file, l.no)
			}
			c, err := mkClause(kw, props, strings.TrimSpace(rest[i+1:]), l.no)
			if err != nil {
				return nil, err
			}
			tn := strings.TrimSpace(rest[:i])
			pc.TypeAssumes[tn] = append(pc.TypeAssumes[tn], c)
			cur = nil
		case "typeinv":
			i := strings.Index(rest, ":")
			if i < 0 {
				return nil, fmt.Errorf("%s:%d: bad typeinv", file, l.no)
			}
			c, err := mkClause(kw, props, strings.TrimSpace(rest[i+1:]), l.no)
			if err != nil {
				return nil, err
			}
			tn := strings.TrimSpace(rest[:i])
			pc.TypeInvs[tn] = append(pc.TypeInvs[tn], c)
			cur = nil
		case "ghost":
			// ghost func name(T1, T2) R
			r := strings.TrimPrefix(rest, "func ")
			op, cl := strings.Index(r, "("), strings.LastIndex(r, ")")
			if op < 0 || cl < op {
				return nil, fmt.Errorf("%s:%d: bad ghost decl", file, l.no)
			}
			g := &GhostFunc{Name: strings.TrimSpace(r[:op]), Result: strings.TrimSpace(r[cl+1:]), Pkg: pkgPath}
			for _, p := range strings.Split(r[op+1:cl], ",") {
				if p = strings.TrimSpace(p); p != "" {
					g.Params = append(g.Params, p)
				}
			}
			pc.Ghosts[g.Name] = g
			cur = nil
		case "define":
			// define name(a, b): expr
			i := strings.Index(rest, ":")
			head, body := strings.TrimSpace(rest[:i]), strings.TrimSpace(rest[i+1:])
			op, cl := strings.Index(head, "("), strings.LastIndex(head, ")")
			d := &Define{Name: strings.TrimSpace(head[:op]), Text: body}
			for _, p := range strings.Split(head[op+1:cl], ",") {
				if p = strings.TrimSpace(p); p != "" {
					d.Params = append(d.Params, p)
				}
			}
			e, err := parser.ParseExpr(body)
			if err != nil {
				return nil, fmt.Errorf("%s:%d: cannot parse define body %q: %v", file, l.no, body, err)
			}
			d.Expr = e
			pc.Defines[d.Name] = d
			cur = nil
		case "axiom":
			c, err := mkClause(kw, props, rest, l.no)
			if err != nil {
				return nil, err
			}
			pc.Axioms = append(pc.Axioms, c)
			cur = nil
		case "global":
			c, err := mkClause(kw, props, rest, l.no)
			if err != nil {
				return nil, err
			}
			pc.Globals = append(pc.Globals, c)
			cur = nil
		case "initial":
			// initial[Cxx] <package var>[.field...] == <constant expression>: the value the variable is
			// initialised with (and that no non-test code reassigns); proved by evaluating the declaration,
			// then available to every VC of the package like a `global` fact.
			c, err := mkClause(kw, props, rest, l.no)
			if err != nil {
				return nil, err
			}
			pc.Initials = append(pc.Initials, c)
			pc.Globals = append(pc.Globals, c)
			cur = nil
		case "guarded":
			// guarded T.mu: f1, f2
			i := strings.Index(rest, ":")
			head := strings.TrimSpace(rest[:i])
			dot := strings.Index(head, ".")
			g := &GuardDecl{Type: head[:dot], Mutex: head[dot+1:], Props: parseProps(props), Line: l.no}
			for _, f := range strings.Split(rest[i+1:], ",") {
				if f = strings.TrimSpace(f); f != "" {
					g.Fields = append(g.Fields, f)
				}
			}
			pc.Guarded = append(pc.Guarded, g)
			cur = nil
		case "condlocked":
			// condlocked T.f   -- the waiters of this condition variable poll something its lock does not
			// order (a context, a timer): a wake-up sent without c.L can fall between the poll and Wait
			// `except F G`: wake-ups in F, G (and their closures) are not sent on behalf of anything the
			// waiters poll (redundant nudges): they may stay bare
			head := strings.TrimSpace(rest)
			var except []string
			if i := strings.Index(head, " except "); i >= 0 {
				except = strings.Fields(head[i+len(" except "):])
				head = strings.TrimSpace(head[:i])
			}
			dot := strings.Index(head, ".")
			if dot < 0 {
				return nil, fmt.Errorf("%s:%d: condlocked wants Type.field", file, l.no)
			}
			pc.CondLocked = append(pc.CondLocked, &GuardDecl{Type: head[:dot], Mutex: head[dot+1:], Props: parseProps(props), Line: l.no, Fields: except})
			cur = nil
		case "lockinv":
			i := strings.Index(rest, ":")
			head := strings.TrimSpace(rest[:i])
			dot := strings.Index(head, ".")
			c, err := mkClause(kw, props, strings.TrimSpace(rest[i+1:]), l.no)
			if err != nil {
				return nil, err
			}
			pc.LockInvs = append(pc.LockInvs, &LockInv{Type: head[:dot], Mutex: head[dot+1:], Clause: c})
			cur = nil
		case "closed":
			pc.Closed[rest] = true
			cur = nil
		case "pure":
			pc.Pure[rest] = true
			cur = nil
		case "lockfree":
			cur.LockFree = true
		case "lockbalance":
			// lockbalance[Cxx]: every Lock of this function is released on every path (the obligations of
			// the C08 lemma) is also claimed under Cxx - a leaked lock on an input-driven path is a hang
			cur.LockProps = append(cur.LockProps, parseProps(props)...)
		default:
			return nil, fmt.Errorf("%s:%d: unknown contract keyword %q", file, l.no, kw)
		}
	}
	return pc, nil
}
