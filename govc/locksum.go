package main

import (
	"fmt"
	"go/token"
	"go/types"
	"sort"
	"sync"
	"strings"

	"golang.org/x/tools/go/ssa"
)

// Lock summaries. For a method, the mutexes reachable from its own receiver by a field path
// (`mu`, `RWMutex`, `upstreams.mu`) that it may acquire - directly or through methods it calls on
// the same receiver. A caller that holds one of them on the same object and calls the method
// would wait for itself (sync mutexes are not re-entrant; recursive read locking deadlocks as
// soon as a writer queues up), so every such call site gets a `lock.relock` obligation.

type lockUse struct {
	path string // field path from the receiver to the mutex
}

var lockSumMu sync.Mutex

// lockSummary is called from the per-function VC builders, which run concurrently.
func (e *Engine) lockSummary(f *ssa.Function) []string {
	lockSumMu.Lock()
	defer lockSumMu.Unlock()
	return e.lockSummaryLocked(f)
}

func (e *Engine) lockSummaryLocked(f *ssa.Function) []string {
	if e.lockSums == nil {
		e.lockSums = map[*ssa.Function][]string{}
	}
	if s, ok := e.lockSums[f]; ok {
		return s
	}
	e.lockSums[f] = nil // cycle guard
	set := map[string]bool{}
	if f.Signature.Recv() != nil && len(f.Params) > 0 && len(f.Blocks) > 0 {
		recv := f.Params[0]
		for _, b := range f.Blocks {
			for _, in := range b.Instrs {
				ci, ok := in.(ssa.CallInstruction)
				if !ok {
					continue
				}
				if _, isGo := in.(*ssa.Go); isGo {
					continue
				}
				c := ci.Common()
				if c.IsInvoke() {
					continue
				}
				callee := c.StaticCallee()
				if callee == nil {
					continue
				}
				switch callee.String() {
				case "(*sync.Mutex).Lock", "(*sync.RWMutex).Lock", "(*sync.RWMutex).RLock":
					if p := fieldPathFrom(c.Args[0], recv); p != "" {
						set[p] = true
					}
					continue
				}
				// a method called on the same receiver
				if callee.Signature.Recv() != nil && len(c.Args) > 0 && c.Args[0] == recv && e.inModule(callee) {
					if fc := e.contractOf(callee); fc != nil && fc.Inline {
						continue
					}
					for _, p := range e.lockSummaryLocked(callee) {
						set[p] = true
					}
				}
			}
		}
	}
	var out []string
	for p := range set {
		out = append(out, p)
	}
	sort.Strings(out)
	e.lockSums[f] = out
	return out
}

func structOf(t types.Type) *types.Struct {
	if p, ok := t.Underlying().(*types.Pointer); ok {
		t = p.Elem()
	}
	st, _ := t.Underlying().(*types.Struct)
	return st
}

// fieldPathFrom: v is &root.f1.f2 or the value of a pointer-typed field root.f1.f2; returns "f1.f2".
func fieldPathFrom(v ssa.Value, root ssa.Value) string {
	var parts []string
	for depth := 0; depth < 6; depth++ {
		switch x := v.(type) {
		case *ssa.UnOp:
			if x.Op != token.MUL {
				return ""
			}
			v = x.X
		case *ssa.FieldAddr:
			st := structOf(x.X.Type())
			if st == nil {
				return ""
			}
			parts = append([]string{st.Field(x.Field).Name()}, parts...)
			if x.X == root {
				return strings.Join(parts, ".")
			}
			v = x.X
		default:
			return ""
		}
	}
	return ""
}

// checkCallLocks: the call must not be made while holding a mutex the callee acquires on the same object.
func (fr *Frame) checkCallLocks(callee *ssa.Function, args []*Val, pos token.Pos) {
	if callee == nil || len(args) == 0 || !fr.vc.eng.inModule(callee) {
		return
	}
	sum := fr.vc.eng.lockSummary(callee)
	if len(sum) == 0 {
		return
	}
	recv := args[0]
	for _, path := range sum {
		// prefilter: only mutexes that this function itself acquires through the same field path
		// (the ids of unrelated mutexes - a pointer-typed one and a field of another object - are
		// not known to differ, and asking the solver about them would only produce false alarms)
		if !fr.acquiresPath(path) {
			continue
		}
		k := 8100 + len(fr.vc.cmds)
		env := &SpecEnv{fr: fr, vars: map[string]*Val{}, cur: fr.st, old: fr.st, pkg: pkgOf(callee), nq: &k}
		cur := recv
		var err error
		for _, f := range strings.Split(path, ".") {
			cur, err = env.selectField(cur, f)
			if err != nil {
				break
			}
		}
		if err != nil || cur == nil {
			continue
		}
		id := cur.T
		if cur.S == SIface {
			id = sx("ival", cur.T)
		}
		p := fr.pos(pos)
		src := fr.vc.eng.srcLine(p)
		name := fmt.Sprintf("%s/lock.relock@call.%s.%s#%s", relFuncName(fr.vc.fn), relFuncName(callee), path, hash4(src))
		fr.vc.oblige("lock.relock", name, p, src+"   // "+relFuncName(callee)+" acquires "+path+" of its receiver", fr.reach,
			and(eq(sel(fr.lockW(), id), "0"), eq(sel(fr.lockR(), id), "0")), fr.vc.lockProps())
	}
}

// acquiresPath: does the function being executed contain a Lock/RLock of a mutex reached by a field
// path that equals `path` or has it as a dotted suffix (or vice versa)?
func (fr *Frame) acquiresPath(path string) bool {
	if fr.lockPaths == nil {
		fr.lockPaths = map[string]bool{}
		for _, b := range fr.fn.Blocks {
			for _, in := range b.Instrs {
				ci, ok := in.(ssa.CallInstruction)
				if !ok {
					continue
				}
				c := ci.Common()
				if c.IsInvoke() {
					continue
				}
				callee := c.StaticCallee()
				if callee == nil {
					continue
				}
				switch callee.String() {
				case "(*sync.Mutex).Lock", "(*sync.RWMutex).Lock", "(*sync.RWMutex).RLock":
					if p := anyFieldPath(c.Args[0]); p != "" {
						fr.lockPaths[p] = true
					}
				}
			}
		}
	}
	for p := range fr.lockPaths {
		if p == path || strings.HasSuffix(p, "."+path) || strings.HasSuffix(path, "."+p) {
			return true
		}
	}
	return false
}

// anyFieldPath: the dotted field path of &x.f1.f2 / the pointer field x.f1.f2, whatever x is.
func anyFieldPath(v ssa.Value) string {
	var parts []string
	for depth := 0; depth < 6; depth++ {
		switch x := v.(type) {
		case *ssa.UnOp:
			if x.Op != token.MUL {
				return strings.Join(parts, ".")
			}
			v = x.X
		case *ssa.FieldAddr:
			st := structOf(x.X.Type())
			if st == nil {
				return strings.Join(parts, ".")
			}
			parts = append([]string{st.Field(x.Field).Name()}, parts...)
			v = x.X
		default:
			return strings.Join(parts, ".")
		}
	}
	return strings.Join(parts, ".")
}
