package main

import (
	"go/token"

	"golang.org/x/tools/go/ssa"
)

// Private cells. A variable captured by a closure is a heap cell (go/ssa: Alloc with Heap=true
// bound into MakeClosure). A callee can change it only by running one of the closures that
// capture it. If every such closure is only ever called directly, deferred, or handed to
// parameters that are themselves only called (never stored, sent, returned, started as a
// goroutine), then a call that does not receive one of those closures cannot reach the cell,
// and its content survives the havoc of that call's mod-set.

type cellInfo struct {
	heap  string
	hsort Sort
	esort Sort
	ref   Term
}

// privateAlloc reports whether the address of a escapes only into non-escaping closures.
func (e *Engine) privateAlloc(a *ssa.Alloc) bool {
	if !a.Heap {
		return false
	}
	refs := a.Referrers()
	if refs == nil {
		return false
	}
	for _, r := range *refs {
		switch x := r.(type) {
		case *ssa.Store:
			if x.Val == a {
				return false
			}
		case *ssa.UnOp:
			if x.Op != token.MUL {
				return false
			}
		case *ssa.DebugRef:
		case *ssa.MakeClosure:
			if !e.closureValuePrivate(x, map[ssa.Value]bool{}) {
				return false
			}
		default:
			return false
		}
	}
	return true
}

// closureValuePrivate: v (a closure value, possibly converted to a named func type) is only
// called, deferred, or passed to non-retaining parameters.
func (e *Engine) closureValuePrivate(v ssa.Value, seen map[ssa.Value]bool) bool {
	if seen[v] {
		return false
	}
	seen[v] = true
	refs := v.Referrers()
	if refs == nil {
		return false
	}
	for _, r := range *refs {
		switch x := r.(type) {
		case *ssa.DebugRef:
		case *ssa.ChangeType:
			if !e.closureValuePrivate(x, seen) {
				return false
			}
		case *ssa.Call:
			if !e.callUseNonRetaining(&x.Call, v) {
				return false
			}
		case *ssa.Defer:
			if !e.callUseNonRetaining(&x.Call, v) {
				return false
			}
		default:
			return false // Go, Store, Send, Return, Phi, MakeInterface, MapUpdate, ...
		}
	}
	return true
}

func (e *Engine) callUseNonRetaining(c *ssa.CallCommon, v ssa.Value) bool {
	if c.IsInvoke() {
		return false
	}
	if c.Value == v {
		// direct call of the value; it must not also be passed as an argument
		for _, a := range c.Args {
			if a == v {
				return false
			}
		}
		return true
	}
	callee := c.StaticCallee()
	if callee == nil || len(callee.Blocks) == 0 {
		return false
	}
	for i, a := range c.Args {
		if a != v {
			continue
		}
		if i >= len(callee.Params) || !e.paramNonRetaining(callee, i, map[*ssa.Parameter]bool{}) {
			return false
		}
	}
	return true
}

func (e *Engine) paramNonRetaining(f *ssa.Function, k int, seen map[*ssa.Parameter]bool) bool {
	p := f.Params[k]
	if seen[p] {
		return false
	}
	seen[p] = true
	var ok func(v ssa.Value) bool
	ok = func(v ssa.Value) bool {
		refs := v.Referrers()
		if refs == nil {
			return true
		}
		for _, r := range *refs {
			switch x := r.(type) {
			case *ssa.DebugRef:
			case *ssa.ChangeType:
				if !ok(x) {
					return false
				}
			case *ssa.Call:
				c := &x.Call
				if c.IsInvoke() {
					return false
				}
				if c.Value == v {
					for _, a := range c.Args {
						if a == v {
							return false
						}
					}
					continue
				}
				callee := c.StaticCallee()
				if callee == nil || len(callee.Blocks) == 0 {
					return false
				}
				for i, a := range c.Args {
					if a == v && (i >= len(callee.Params) || !e.paramNonRetaining(callee, i, seen)) {
						return false
					}
				}
			default:
				return false
			}
		}
		return true
	}
	return ok(p)
}

// closuresIn collects the MakeClosure instructions a call operand may denote.
func closuresIn(v ssa.Value, out map[*ssa.MakeClosure]bool) {
	switch x := v.(type) {
	case *ssa.MakeClosure:
		out[x] = true
	case *ssa.ChangeType:
		closuresIn(x.X, out)
	}
}

// snapshotPrivateCells returns, for the private cells of this frame that the call cannot reach,
// their current content.
func (fr *Frame) snapshotPrivateCells(c *ssa.CallCommon) map[*ssa.Alloc]Term {
	if len(fr.cells) == 0 {
		return nil
	}
	cl := map[*ssa.MakeClosure]bool{}
	if c.Value != nil {
		closuresIn(c.Value, cl)
	}
	for _, a := range c.Args {
		closuresIn(a, cl)
	}
	bound := map[ssa.Value]bool{}
	for mc := range cl {
		for _, b := range mc.Bindings {
			bound[b] = true
		}
	}
	out := map[*ssa.Alloc]Term{}
	for a, ci := range fr.cells {
		if bound[a] {
			continue
		}
		out[a] = fr.vc.define("cell", ci.esort, sel(fr.vc.heap(fr.st, ci.heap, ci.hsort), ci.ref))
	}
	return out
}

func (fr *Frame) restorePrivateCells(snap map[*ssa.Alloc]Term) {
	for a, t := range snap {
		ci := fr.cells[a]
		h := fr.vc.heap(fr.st, ci.heap, ci.hsort)
		fr.vc.setHeap(fr.st, ci.heap, ci.hsort, store(h, ci.ref, t))
	}
}
