package main

import (
	"fmt"
	"go/ast"
	"go/types"
	"sort"
	"strings"

	"golang.org/x/tools/go/ssa"
)

// LemmasFor returns the lemmas tagged with prop.
func (e *Engine) LemmasFor(prop string) []*Lemma {
	var out []*Lemma
	for _, pc := range e.contracts {
		for _, lm := range pc.Lemmas {
			if hasProp(lm.Props, prop) {
				out = append(out, lm)
			}
		}
	}
	return out
}

// BuildLemmaVC symbolically executes the lemma's let-steps (inlining the real
// function bodies) and turns its ensures into obligations.
func (e *Engine) BuildLemmaVC(lm *Lemma, prop string) (vc *VC, err error) {
	defer func() {
		if r := recover(); r != nil {
			err = fmt.Errorf("VC generation for lemma %s failed: %v", lm.Name, r)
		}
	}()
	sp := e.spkgs[lm.PkgPath]
	if sp == nil {
		return nil, fmt.Errorf("lemma %s: unknown package %s", lm.Name, lm.PkgPath)
	}
	// host function: the first callee (for positions / naming)
	var host *ssa.Function
	for _, st := range lm.Steps {
		if st.Kind == "let" {
			if call, ok := st.Expr.(*ast.CallExpr); ok {
				if id, ok := call.Fun.(*ast.Ident); ok {
					host = e.funcByKey[lm.PkgPath+" "+id.Name]
				}
			}
			break
		}
	}
	if host == nil {
		// any function of the package will do as a host for positions
		var keys []string
		for k := range e.funcByKey {
			if strings.HasPrefix(k, lm.PkgPath+" ") {
				keys = append(keys, k)
			}
		}
		sort.Strings(keys)
		if len(keys) > 0 {
			host = e.funcByKey[keys[0]]
		}
	}
	for range []int{} {
		if false {
			break
		}
	}
	if host == nil {
		return nil, fmt.Errorf("lemma %s: first let must call a package-level function", lm.Name)
	}
	known := map[string]Sort{}
	unmod := map[string]map[string]bool{}
	for pass := 0; pass < 6; pass++ {
		vc = newVC(e, host, known, unmod)
		vc.prop = prop
		vc.noSafety = true
		vc.lemma = lm
		vc.runLemma(lm, sp)
		stable := len(vc.known) == len(known) && len(vc.loopUnmodNext) == len(unmod)
		if stable {
			for k, um := range vc.loopUnmodNext {
				if len(unmod[k]) != len(um) {
					stable = false
				}
			}
		}
		known, unmod = vc.known, vc.loopUnmodNext
		if stable {
			break
		}
	}
	return vc, nil
}

func (vc *VC) runLemma(lm *Lemma, sp *ssa.Package) {
	e := vc.eng
	fr := &Frame{vc: vc, fn: vc.fn, key: "lemma", vals: map[ssa.Value]*Val{}, top: false, reach: "true"}
	fr.st = &State{heaps: map[string]Term{}}
	lw := "((as const (Array Int Int)) 0)"
	vc.setHeap(fr.st, lockW, lockSort, lw)
	vc.setHeap(fr.st, lockR, lockSort, lw)
	vc.setHeap(fr.st, lockRel, lockSort, lw)
	fr.entry = fr.st.clone()
	vars := map[string]*Val{}
	nq := 100
	mkEnv := func() *SpecEnv {
		return &SpecEnv{fr: fr, vars: vars, cur: fr.st, old: fr.entry, pkg: sp, nq: &nq}
	}
	vc.assumePackageFacts(fr, mkEnv())
	npost := 0
	for _, st := range lm.Steps {
		switch st.Kind {
		case "forall":
			te, err := parserParseExpr(st.Text)
			if err != nil {
				vc.lemmaError(lm, st, err)
				continue
			}
			t, err := mkEnv().resolveType(te)
			if err != nil || t == nil {
				vc.lemmaError(lm, st, fmt.Errorf("cannot resolve type %s", st.Text))
				continue
			}
			vars[st.Names[0]] = fr.freshVal("lemma."+st.Names[0], t)
		case "requires":
			t, err := fr.evalSpecAssume(st.Clause.Expr, mkEnv())
			if err != nil {
				vc.specError(fr, st.Clause, err)
				continue
			}
			vc.assume(fr.reach, t)
		case "let":
			call, ok := st.Expr.(*ast.CallExpr)
			if !ok {
				vc.lemmaError(lm, st, fmt.Errorf("let needs a call"))
				continue
			}
			var callee *ssa.Function
			var args []*Val
			bad := false
			switch f := call.Fun.(type) {
			case *ast.Ident:
				callee = e.funcByKey[lm.PkgPath+" "+f.Name]
			case *ast.SelectorExpr:
				recv, err := mkEnv().eval(f.X)
				if err == nil && recv.Typ != nil {
					if n := namedOf(recv.Typ); n != nil {
						callee = e.funcByKey[lm.PkgPath+" (*"+n.Obj().Name()+")."+f.Sel.Name]
						if callee == nil {
							callee = e.funcByKey[lm.PkgPath+" ("+n.Obj().Name()+")."+f.Sel.Name]
						}
						args = append(args, recv)
					}
				}
			}
			if callee == nil {
				vc.lemmaError(lm, st, fmt.Errorf("unknown function in %s", st.Text))
				continue
			}
			off := len(args)
			for k, a := range call.Args {
				v, err := mkEnv().eval(a)
				if err != nil {
					vc.lemmaError(lm, st, err)
					bad = true
					break
				}
				v = mkEnv().rvalue(v)
				if k+off < len(callee.Params) && v.Typ == nil {
					nv := *v
					nv.Typ = callee.Params[k+off].Type()
					v = &nv
				}
				if k+off < len(callee.Params) && v.Typ != nil {
					pt := callee.Params[k+off].Type()
					if _, isI := pt.Underlying().(*types.Interface); isI {
						if _, argI := v.Typ.Underlying().(*types.Interface); !argI {
							v = fr.makeIface(v, v.Typ, pt) // implicit conversion to the interface parameter
						}
					}
				}
				args = append(args, v)
			}
			if bad {
				continue
			}
			var rt types.Type
			switch callee.Signature.Results().Len() {
			case 0:
			case 1:
				rt = callee.Signature.Results().At(0).Type()
			default:
				rt = callee.Signature.Results()
			}
			res := fr.inline(callee, args, nil, rt, callee.Pos())
			if res == nil {
				continue
			}
			if len(res.Tup) > 0 {
				for k, n := range st.Names {
					if k < len(res.Tup) && n != "_" {
						vars[n] = res.Tup[k]
					}
				}
			} else if len(st.Names) > 0 && st.Names[0] != "_" {
				vars[st.Names[0]] = res
			}
		case "ensures":
			npost++
			t, err := fr.evalSpecBool(st.Clause.Expr, mkEnv())
			if err != nil {
				vc.specError(fr, st.Clause, err)
				continue
			}
			vc.oblige("lemma", fmt.Sprintf("lemma:%s/post#%d", lm.Name, npost), fr.pos(vc.fn.Pos()), st.Clause.Text, fr.reach, t, st.Clause.Props)
		}
	}
	vc.cover(fmt.Sprintf("lemma:%s/cover", lm.Name), fr.pos(vc.fn.Pos()), fr.reach, lm.Props)
}

func (vc *VC) lemmaError(lm *Lemma, st LemmaStep, err error) {
	vc.obls = append(vc.obls, &Obl{Name: vc.uniq(fmt.Sprintf("lemma:%s/unresolved@%d", lm.Name, st.Line)), Kind: "unresolved", Func: "lemma " + lm.Name,
		Props: lm.Props, Goal: "true", CmdIdx: len(vc.cmds), Src: st.Text + "  -- " + err.Error(), Status: "unresolved"})
}
