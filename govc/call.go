package main

import (
	"os"
	"fmt"
	"go/token"
	"go/types"
	"sort"
	"strings"

	"golang.org/x/tools/go/ssa"
)

const maxInlineDepth = 8

// call handles a CallCommon and returns the result value (nil for no result).
func (fr *Frame) call(c *ssa.CallCommon, site ssa.Value, pos token.Pos) *Val {
	var args []*Val
	for _, a := range c.Args {
		args = append(args, fr.val(a))
	}
	var fv *Val
	if !c.IsInvoke() {
		if _, isB := c.Value.(*ssa.Builtin); !isB {
			fv = fr.val(c.Value)
		}
	} else {
		fv = fr.val(c.Value)
	}
	return fr.callVals(c, fv, args, c.Args, pos)
}

func resultType(c *ssa.CallCommon) types.Type {
	sig := c.Signature()
	if sig == nil {
		return nil
	}
	switch sig.Results().Len() {
	case 0:
		return nil
	case 1:
		return sig.Results().At(0).Type()
	}
	return sig.Results()
}

func (fr *Frame) callVals(c *ssa.CallCommon, fv *Val, args []*Val, argVals []ssa.Value, pos token.Pos) *Val {
	snap := fr.snapshotPrivateCells(c)
	res := fr.callVals1(c, fv, args, argVals, pos)
	fr.restorePrivateCells(snap)
	what := callAnchorName(c, fv)
	if what != "" {
		bind := map[string]*Val{}
		for i, a := range args {
			bind[fmt.Sprintf("arg%d", i)] = a
		}
		if res != nil {
			if len(res.Tup) > 0 {
				for i, r := range res.Tup {
					bind[fmt.Sprintf("res%d", i)] = r
				}
			} else {
				bind["res0"] = res
			}
		}
		fr.ghostAfter("call", what, bind)
	}
	return res
}

func (fr *Frame) callVals1(c *ssa.CallCommon, fv *Val, args []*Val, argVals []ssa.Value, pos token.Pos) *Val {
	vc := fr.vc
	if b, ok := c.Value.(*ssa.Builtin); ok && !c.IsInvoke() {
		return fr.builtin(b, c, args, argVals, pos)
	}
	rt := resultType(c)
	{
		what := callAnchorName(c, fv)
		if what != "" {
			bind := map[string]*Val{}
			for i, a := range args {
				bind[fmt.Sprintf("arg%d", i)] = a
			}
			if c.IsInvoke() && fv != nil {
				bind["recv"] = fv
			}
			fr.anchorAsserts("call", what, pos, bind)
		}
	}
	if c.IsInvoke() {
		recv := fv
		name := ifaceMethodName(c)
		if h, ok := externInvoke[name]; ok {
			return h(fr, c, recv, args, pos)
		}
		fr.safety("nil", "invoke "+c.Method.Name(), pos, not(eq(sx("itag", recv.T), "0")))
		if ic := vc.eng.ifaceContract(c); ic != nil {
			fr.ifaceModSet = vc.eng.invokeModSet(c)
			if strings.Count(ic.Key, ".") == 2 {
				vc.externals["assumed contract of external interface "+ic.Key] = true
			}
			return fr.contractCall(ic, nil, append([]*Val{recv}, args...), rt, pos, name)
		}
		// closed-world dispatch over implementers with contracts is not attempted here:
		// havoc the union of implementers' mod-sets.
		ms := vc.eng.invokeModSet(c)
		fr.havocModSet(ms, name)
		vc.externals["invoke "+name] = true
		if rt == nil {
			return nil
		}
		return fr.freshVal("inv."+c.Method.Name(), rt)
	}
	var callee *ssa.Function
	if fv != nil && fv.Fn != nil {
		callee = fv.Fn
	}
	if f, ok := c.Value.(*ssa.Function); ok {
		callee = f
	}
	if callee == nil {
		// x.cancel() where the contracts declare `cancelof T.cancel: ctx`: marks x.ctx done
		if u, ok := c.Value.(*ssa.UnOp); ok {
			if fa, ok := u.X.(*ssa.FieldAddr); ok {
				if n := namedOf(fa.X.Type()); n != nil && n.Obj().Pkg() != nil {
					if pc := vc.eng.contracts[n.Obj().Pkg().Path()]; pc != nil {
						st := n.Underlying().(*types.Struct)
						if ctxField, ok := pc.CancelOf[n.Obj().Name()+"."+st.Field(fa.Field).Name()]; ok {
							for i := 0; i < st.NumFields(); i++ {
								if st.Field(i).Name() == ctxField {
									hn := fieldHeapName(n, i)
									cv := sel(vc.heap(fr.st, hn, arrSort(SInt, SIface)), fr.val(fa.X).T)
									cd := vc.heap(fr.st, ctxDoneHeap, ctxDoneSort)
									vc.setHeap(fr.st, ctxDoneHeap, ctxDoneSort, ite(fr.reach, store(cd, cv, "true"), cd))
									vc.externals["cancelof "+n.Obj().Name()+"."+st.Field(fa.Field).Name()+" (assumed: the field holds the cancel function of "+ctxField+")"] = true
									fr.safety("nil", "call func value", pos, not(eq(fv.T, "0")))
									return nil
								}
							}
						}
					}
				}
			}
		}
	}
	if callee == nil && fv != nil && fv.PureFn {
		if rt == nil {
			return nil
		}
		return fr.freshVal("pure", rt)
	}
	if callee == nil {
		// dynamic call through a function value
		fr.safety("nil", "call func value", pos, not(eq(fv.T, "0")))
		ms := vc.eng.dynamicModSet(c.Signature())
		vc.externals["call through function value of type "+types.TypeString(c.Signature(), nil)+" (assumed: behaves like one of the in-module functions of that type; application callbacks do not re-enter the library)"] = true
		fr.havocModSet(ms, "dynamic call")
		if rt == nil {
			return nil
		}
		return fr.freshVal("dyn", rt)
	}
	full := callee.String()
	if h, ok := externStatic[full]; ok {
		return h(fr, c, args, argVals, pos)
	}
	// method value wrappers / bound methods / thunks: look through
	if callee.Synthetic != "" && len(callee.Blocks) > 0 && (strings.HasPrefix(callee.Synthetic, "bound method wrapper") || strings.HasPrefix(callee.Synthetic, "wrapper for") || strings.HasPrefix(callee.Synthetic, "thunk")) {
		if fr.depth < maxInlineDepth {
			return fr.inline(callee, args, fv, rt, pos)
		}
	}
	fc := vc.eng.contractOf(callee)
	inModule := vc.eng.inModule(callee)
	if inModule && vc.lemma == nil {
		fr.checkCallLocks(callee, args, pos)
	}
	if vc.lemma != nil && vc.lemma.InlineAll && inModule && len(callee.Blocks) > 0 && fr.depth < maxInlineDepth && !fr.onStack(callee) {
		if p := pkgOf(callee); p != nil && p.Pkg.Path() == vc.lemma.PkgPath {
			return fr.inline(callee, args, fv, rt, pos)
		}
	}
	isLocalClosure := callee.Parent() != nil
	if fc != nil && !fc.Inline && !(callee == fr.vc.fn) && (len(fc.Ensures) > 0 || len(fc.Requires) > 0 || fc.HasModifies) {
		fr.curFv = fv
		return fr.contractCall(fc, callee, args, rt, pos, relFuncName(callee))
	}
	if inModule && len(callee.Blocks) > 0 && fr.depth < maxInlineDepth && !fr.onStack(callee) && ((fc != nil && fc.Inline) || isLocalClosure || vc.eng.autoInline(callee)) {
		return fr.inline(callee, args, fv, rt, pos)
	}
	if v := fr.generatedGetter(callee, args); v != nil {
		vc.externals[full+" (assumed: generated protobuf getter returns the field, zero value for a nil receiver)"] = true
		return v
	}
	if inModule {
		ms := vc.eng.modSetOf(callee)
		fr.havocModSet(ms, relFuncName(callee))
		vc.externals["uncontracted "+full] = true
	} else {
		vc.externals[full] = true
		// a pointer boxed into an interface argument (errors.As(err, &target), json.Unmarshal(b, &v)) is written through as well
		eargs := append([]*Val{}, args...)
		for _, av := range argVals {
			if mi, ok := av.(*ssa.MakeInterface); ok {
				if _, isPtr := mi.X.Type().Underlying().(*types.Pointer); isPtr {
					if al, ok := mi.X.(*ssa.Alloc); ok {
						if l := fr.locOf(al); l != nil && l.kind != "struct" {
							// a local cell: forget its content
							fr.storeLoc(l, fr.freshVal("extcell", deref(al.Type())).T)
						}
					} else if v, ok := fr.vals[mi.X]; ok {
						eargs = append(eargs, v)
					}
				}
			}
		}
		fr.externEffects(callee, eargs)
	}
	if rt == nil {
		return nil
	}
	return fr.freshVal("call."+callee.Name(), rt)
}

func (fr *Frame) onStack(f *ssa.Function) bool {
	for x := fr; x != nil; x = x.parent {
		if x.fn == f {
			return true
		}
	}
	return false
}

func ifaceMethodName(c *ssa.CallCommon) string {
	t := c.Value.Type()
	return "(" + types.TypeString(t, nil) + ")." + c.Method.Name()
}

// externEffects: an external callee may write through slices and pointers it receives.
func (fr *Frame) externEffects(callee *ssa.Function, args []*Val) {
	vc := fr.vc
	U := fr.U()
	for _, a := range args {
		if a.Typ == nil {
			continue
		}
		switch t := a.Typ.Underlying().(type) {
		case *types.Slice:
			es := U.sortOf(t.Elem())
			hn, hs := U.elemHeapT(t.Elem())
			fr.markDirty(hn, "")
			h := vc.heap(fr.st, hn, hs)
			row := vc.fresh("extrow", arrSort(SInt, es))
			vc.setHeap(fr.st, hn, hs, store(h, sx("sarr", a.T), row))
		case *types.Pointer:
			if isStruct(t.Elem()) && fr.vc.eng.inModuleType(t.Elem()) {
				st := t.Elem().Underlying().(*types.Struct)
				for i := 0; i < st.NumFields(); i++ {
					hn := fieldHeapName(t.Elem(), i)
					hs := arrSort(SInt, U.sortOf(st.Field(i).Type()))
					if isStruct(st.Field(i).Type()) {
						continue
					}
					h := vc.heap(fr.st, hn, hs)
					fr.markDirty(hn, a.T)
					nv := fr.freshVal("extfld", st.Field(i).Type())
					vc.setHeap(fr.st, hn, hs, store(h, a.T, nv.T))
				}
			} else if !isStruct(t.Elem()) && !isArray(t.Elem()) {
				hn, hs := U.ptrHeapT(t.Elem())
				h := vc.heap(fr.st, hn, hs)
				fr.markDirty(hn, a.T)
				nv := fr.freshVal("extptr", t.Elem())
				vc.setHeap(fr.st, hn, hs, store(h, a.T, nv.T))
			}
		}
	}
	// may allocate
	a := fr.alloc()
	na := vc.fresh("$alloc", SInt)
	vc.heapSorts["$alloc"] = SInt
	fr.st.heaps["$alloc"] = na
	vc.assume(fr.reach, sx(">=", na, a))
}

// ModSet is the set of heaps a function may write.
type ModSet struct {
	All   bool
	Names map[string]Sort
	Types map[string][]types.Type // Go types whose sorts the heap's sort mentions
	// NonFresh[name]: some write to the heap may hit an object that existed before the call;
	// heaps absent from NonFresh are only written at objects allocated during the call.
	NonFresh map[string]bool
}

func newModSet() *ModSet {
	return &ModSet{Names: map[string]Sort{}, Types: map[string][]types.Type{}, NonFresh: map[string]bool{}}
}

func (ms *ModSet) add(name string, s Sort, ts ...types.Type) {
	ms.Names[name] = s
	ms.Types[name] = ts
	ms.NonFresh[name] = true
}

// addFresh records a write that only hits an object allocated by the writer itself.
func (ms *ModSet) addFresh(name string, s Sort, ts ...types.Type) {
	if _, ok := ms.Names[name]; !ok {
		ms.Names[name] = s
		ms.Types[name] = ts
	}
}

func (ms *ModSet) merge(o *ModSet) {
	for k, v := range o.Names {
		ms.Names[k] = v
		ms.Types[k] = o.Types[k]
		if o.NonFresh[k] {
			ms.NonFresh[k] = true
		}
	}
}

// declareIn makes sure the sorts of heap `name` exist in universe U.
func (ms *ModSet) declareIn(U *Universe, name string) {
	for _, t := range ms.Types[name] {
		U.sortOf(t)
	}
}

func (fr *Frame) havocModSet(ms *ModSet, why string) {
	vc := fr.vc
	a := fr.alloc()
	if ms == nil {
		return
	}
	if ms.All {
		var names []string
		for n := range vc.known {
			names = append(names, n)
		}
		sort.Strings(names)
		for _, n := range names {
			if strings.HasPrefix(n, "L|") || strings.HasPrefix(n, "$") {
				continue
			}
			if strings.HasPrefix(n, "G|") && !vc.eng.moduleGlobal(n) {
				continue
			}
			vc.initHeap(n, vc.known[n])
			vc.havocHeap(fr.st, n)
			fr.markDirty(n, "")
		}
	} else {
		var names []string
		for n := range ms.Names {
			names = append(names, n)
		}
		sort.Strings(names)
		for _, n := range names {
			ms.declareIn(vc.U, n)
			vc.initHeap(n, ms.Names[n])
			old := vc.heap(fr.st, n, ms.Names[n])
			if ms.NonFresh[n] || strings.HasPrefix(n, "G|") || !strings.HasPrefix(ms.Names[n], "(Array Int ") {
				vc.havocHeap(fr.st, n)
				fr.markDirty(n, "")
			} else {
				// written only at objects allocated during the call: existing objects keep their value
				vc.frameHeap(fr.st, n, old, a, nil)
			}
		}
	}
	na := vc.fresh("$alloc", SInt)
	fr.st.heaps["$alloc"] = na
	vc.assume(fr.reach, sx(">=", na, a))
}

// ------------------------------------------------------------------ inlining

func (fr *Frame) inline(callee *ssa.Function, args []*Val, fv *Val, rt types.Type, pos token.Pos) *Val {
	vc := fr.vc
	vc.inlined[callee.String()] = true
	vc.inlineSeq++
	sub := &Frame{vc: vc, fn: callee, key: fmt.Sprintf("%s.i%d", sanitize(callee.Name()), vc.inlineSeq), depth: fr.depth + 1, vals: map[ssa.Value]*Val{}, parent: fr,
		contr: vc.eng.contractOf(callee)}
	sub.auto = sub.contr == nil && callee.Parent() == nil && vc.eng.autoInline(callee)
	if sub.contr == nil && callee.Parent() != nil && os.Getenv("GOVC_CLOSUREOWNER") != "" {
		// an uncontracted local closure that is executed in place (`offer := func(...) {...}; offer(x)`)
		// is part of the function that defines it: its anchored clauses and ghost state apply inside
		own := fr.anchorOwner().fn
		for p := callee.Parent(); p != nil; p = p.Parent() {
			if p == own {
				sub.auto = true
				break
			}
		}
	}
	for i, p := range callee.Params {
		if i < len(args) {
			sub.vals[p] = args[i]
		}
	}
	if fv != nil {
		for i, f := range callee.FreeVars {
			if i < len(fv.Binds) {
				sub.vals[f] = fv.Binds[i]
			}
		}
	}
	sub.entry = fr.st.clone()
	savedDefers := fr.st.defers
	entrySt := fr.st.clone()
	entrySt.defers = nil
	sub.run(fr.reach, entrySt)
	if len(sub.rets) == 0 {
		// callee never returns normally (panics / loops forever)
		fr.reach = "false"
		if rt == nil {
			return nil
		}
		return fr.freshVal("noret", rt)
	}
	var cs []Term
	var sts []*State
	for _, r := range sub.rets {
		cs = append(cs, r.reach)
		sts = append(sts, r.st)
	}
	fr.st = vc.mergeStates(cs, sts)
	fr.st.defers = savedDefers
	fr.reach = vc.define("reach.after."+sub.key, SBool, or(cs...))
	if rt == nil {
		return nil
	}
	nres := len(sub.rets[0].vals)
	if nres == 1 {
		var vs []*Val
		for _, r := range sub.rets {
			vs = append(vs, r.vals[0])
		}
		out := fr.mergeVals("ret."+sub.key, cs, vs, rt)
		if len(vs) == 1 {
			out.Fn, out.Binds = vs[0].Fn, vs[0].Binds
		}
		return out
	}
	out := &Val{S: "Tuple", Typ: rt}
	tup := rt.(*types.Tuple)
	for k := 0; k < nres; k++ {
		var vs []*Val
		for _, r := range sub.rets {
			vs = append(vs, r.vals[k])
		}
		out.Tup = append(out.Tup, fr.mergeVals(fmt.Sprintf("ret.%s.%d", sub.key, k), cs, vs, tup.At(k).Type()))
	}
	return out
}

// ------------------------------------------------------------------ defers

func (fr *Frame) runDefers() {
	vc := fr.vc
	ds := fr.st.defers
	fr.st.defers = nil
	for k := len(ds) - 1; k >= 0; k-- {
		d := ds[k]
		before := fr.st.clone()
		savedReach := fr.reach
		fr.reach = vc.define("defer.g", SBool, and(savedReach, d.guard))
		fr.callVals(d.call, d.fnval, d.args, d.call.Args, d.instr.Pos())
		if d.guard != "true" {
			after := fr.st
			fr.st = vc.mergeStates([]Term{d.guard, not(d.guard)}, []*State{after, before})
		}
		fr.reach = savedReach
	}
}

// ------------------------------------------------------------------ builtins

func (fr *Frame) builtin(b *ssa.Builtin, c *ssa.CallCommon, args []*Val, argVals []ssa.Value, pos token.Pos) *Val {
	vc := fr.vc
	U := fr.U()
	rt := resultType(c)
	switch b.Name() {
	case "len":
		x := args[0]
		switch t := argVals[0].Type().Underlying().(type) {
		case *types.Slice:
			return fr.mkVal(sx("slen", x.T), types.Typ[types.Int])
		case *types.Basic:
			return fr.mkVal(sx("strlen", x.T), types.Typ[types.Int])
		case *types.Map:
			mh := fr.mapHeaps(argVals[0].Type())
			fr.guardMapAccess(argVals[0], false, pos)
			fr.mapFacts(x.T, mh, "")
			return fr.mkVal(vc.define("maplen", SInt, fr.mapLen(fr.st, x.T, mh)), types.Typ[types.Int])
		case *types.Chan:
			v := fr.freshVal("chanlen", types.Typ[types.Int])
			vc.assume(fr.reach, sx(">=", v.T, "0"))
			return v
		case *types.Array:
			return fr.mkVal(num(t.Len()), types.Typ[types.Int])
		case *types.Pointer:
			return fr.mkVal(num(t.Elem().Underlying().(*types.Array).Len()), types.Typ[types.Int])
		}
	case "cap":
		x := args[0]
		switch argVals[0].Type().Underlying().(type) {
		case *types.Slice:
			return fr.mkVal(sx("scap", x.T), types.Typ[types.Int])
		}
		if _, ok := argVals[0].Type().Underlying().(*types.Chan); ok {
			fr.U().declFun("chan.cap", "(declare-fun chan.cap (Int) Int)")
			return fr.mkVal(sx("chan.cap", x.T), types.Typ[types.Int])
		}
		v := fr.freshVal("cap", types.Typ[types.Int])
		vc.assume(fr.reach, sx(">=", v.T, "0"))
		return v
	case "append":
		return fr.builtinAppend(args, argVals, rt)
	case "copy":
		return fr.builtinCopy(args, argVals)
	case "delete":
		mh := fr.mapHeaps(argVals[0].Type())
		fr.guardMapAccess(argVals[0], true, pos)
		fr.mapFacts(args[0].T, mh, args[1].T)
		fr.mapDelete(args[0].T, mh, args[1].T)
		return nil
	case "close":
		fr.onClose(args[0], pos)
		return nil
	case "panic":
		p := fr.pos(pos)
		src := vc.eng.srcLine(p)
		if !vc.noSafety {
			vc.oblige("panic", fmt.Sprintf("%s/panic#%s", relFuncName(vc.fn), hash4(src)), p, src, fr.reach, "false", vc.safetyProps("panic"))
		}
		return nil
	case "recover":
		if fc := vc.eng.contractOf(fr.fn); fc != nil && fc.Recovers {
			v := fr.freshVal("recovered", rt)
			vc.assume(fr.reach, not(eq(sx("itag", v.T), "0")))
			return v
		}
		return fr.mkVal("(mkI 0 0)", rt)
	case "print", "println":
		return nil
	case "min", "max":
		op := "<="
		if b.Name() == "max" {
			op = ">="
		}
		t := args[0].T
		for _, a := range args[1:] {
			t = ite(sx(op, t, a.T), t, a.T)
		}
		return fr.mkVal(vc.define(b.Name(), U.sortOf(rt), t), rt)
	case "clear":
		vc.note("builtin clear unsupported in %s", fr.fn)
		return nil
	case "ssa:wrapnilchk":
		fr.safety("nil", "wrapnilchk", pos, not(eq(args[0].T, "0")))
		return args[0]
	}
	vc.note("unsupported builtin %s in %s", b.Name(), fr.fn)
	if rt == nil {
		return nil
	}
	return fr.freshVal("builtin", rt)
}

// constLen returns n when the slice value is known to have a small constant length.
func constLen(v *Val) (int, bool) {
	// pattern: (mkS ref 0 N N)
	if strings.HasPrefix(v.T, "(mkS ") {
		parts := strings.Fields(strings.TrimSuffix(v.T, ")"))
		if len(parts) == 5 {
			if n, ok := smallConst(parts[3]); ok && n <= 4 {
				return n, true
			}
		}
	}
	return 0, false
}

func (fr *Frame) builtinAppend(args []*Val, argVals []ssa.Value, rt types.Type) *Val {
	vc := fr.vc
	U := fr.U()
	s, t := args[0], args[1]
	var et types.Type
	if sl, ok := rt.Underlying().(*types.Slice); ok {
		et = sl.Elem()
	}
	es := U.sortOf(et)
	hn, hs := U.elemHeapT(et)
	rowS := arrSort(SInt, es)
	var tlen Term
	tIsString := false
	if t.S == SStr {
		tlen = sx("strlen", t.T)
		tIsString = true
	} else {
		tlen = sx("slen", t.T)
	}
	// resolve definitional slice term for constant-length detection
	tdef := fr.resolveDef(t.T)
	h := vc.heap(fr.st, hn, hs)
	ls := sx("slen", s.T)
	newLen := vc.define("app.len", SInt, sx("+", ls, tlen))
	fits := vc.define("app.fits", SBool, sx("<=", newLen, sx("scap", s.T)))
	fresh := vc.define("app.ref", SInt, sx("+", fr.alloc(), "1"))
	vc.setHeap(fr.st, "$alloc", SInt, fresh)
	fr.onAllocArray(fresh)
	newCap := vc.fresh("app.cap", SInt)
	vc.assume(fr.reach, sx(">=", newCap, newLen))
	res := vc.define("app.res", SSlice, ite(fits, sx("mkS", sx("sarr", s.T), sx("soff", s.T), newLen, sx("scap", s.T)), sx("mkS", fresh, "0", newLen, newCap)))
	// new row of the target backing array
	srow := sel(h, sx("sarr", s.T))
	base := vc.define("app.base", SInt, ite(fits, sx("+", sx("soff", s.T), ls), ls))
	var row Term
	n, isConst := constLen(&Val{T: tdef})
	growRow := vc.fresh("app.grow", rowS)
	// grown copy of s
	vc.assume(fr.reach, fmt.Sprintf("(forall ((j!q Int)) (! (=> (and (<= 0 j!q) (< j!q %s)) (= (select %s j!q) (select %s (+ %s j!q)))) :pattern ((select %s j!q))))", ls, growRow, srow, sx("soff", s.T), growRow))
	start := vc.define("app.row0", rowS, ite(fits, srow, growRow))
	if isConst && !tIsString {
		row = start
		trow := sel(h, sx("sarr", tdef))
		for j := 0; j < n; j++ {
			row = store(row, sx("+", base, num(int64(j))), sel(trow, sx("+", sx("soff", tdef), num(int64(j)))))
		}
		row = vc.define("app.row", rowS, row)
	} else {
		row = vc.fresh("app.row", rowS)
		if !tIsString {
			trow := sel(h, sx("sarr", t.T))
			vc.assume(fr.reach, fmt.Sprintf("(forall ((j!q Int)) (! (=> (and (<= 0 j!q) (< j!q %s)) (= (select %s (+ %s j!q)) (select %s (+ %s j!q)))) :pattern ((select %s (+ %s j!q)))))", tlen, row, base, trow, sx("soff", t.T), row, base))
			if os.Getenv("GOVC_APPEND_ABS") != "0" {
				// the same fact addressed by absolute index (matches reads whose index is not syntactically base + j)
				vc.assume(fr.reach, fmt.Sprintf("(forall ((j!q Int)) (! (=> (and (<= %s j!q) (< j!q (+ %s %s))) (= (select %s j!q) (select %s (+ %s (- j!q %s))))) :pattern ((select %s j!q))))", base, base, tlen, row, trow, sx("soff", t.T), base, row))
			}
		}
		vc.assume(fr.reach, fmt.Sprintf("(forall ((j!q Int)) (! (=> (or (< j!q %s) (>= j!q (+ %s %s))) (= (select %s j!q) (select %s j!q))) :pattern ((select %s j!q))))", base, base, tlen, row, start, row))
	}
	target := ite(fits, sx("sarr", s.T), fresh)
	// appending to a nil slice with nothing to add keeps nil
	fr.markDirty(hn, "")
	vc.setHeap(fr.st, hn, hs, ite(and(fits, eq(tlen, "0")), h, store(h, target, row)))
	return fr.mkVal(res, rt)
}

// resolveDef looks through define-fun aliases for slice terms created by this VC.
func (fr *Frame) resolveDef(t Term) Term {
	if d, ok := fr.vc.defs[t]; ok {
		return d
	}
	return t
}

func (fr *Frame) builtinCopy(args []*Val, argVals []ssa.Value) *Val {
	vc := fr.vc
	U := fr.U()
	d, s := args[0], args[1]
	et := argVals[0].Type().Underlying().(*types.Slice).Elem()
	es := U.sortOf(et)
	hn, hs := U.elemHeapT(et)
	rowS := arrSort(SInt, es)
	h := vc.heap(fr.st, hn, hs)
	var sl Term
	if s.S == SStr {
		sl = sx("strlen", s.T)
	} else {
		sl = sx("slen", s.T)
	}
	n := vc.define("copy.n", SInt, ite(sx("<=", sx("slen", d.T), sl), sx("slen", d.T), sl))
	row := vc.fresh("copy.row", rowS)
	drow := sel(h, sx("sarr", d.T))
	if s.S != SStr {
		srow := sel(h, sx("sarr", s.T))
		vc.assume(fr.reach, fmt.Sprintf("(forall ((j!q Int)) (! (=> (and (<= 0 j!q) (< j!q %s)) (= (select %s (+ %s j!q)) (select %s (+ %s j!q)))) :pattern ((select %s (+ %s j!q)))))", n, row, sx("soff", d.T), srow, sx("soff", s.T), row, sx("soff", d.T)))
	}
	vc.assume(fr.reach, fmt.Sprintf("(forall ((j!q Int)) (! (=> (or (< j!q %s) (>= j!q (+ %s %s))) (= (select %s j!q) (select %s j!q))) :pattern ((select %s j!q))))", sx("soff", d.T), sx("soff", d.T), n, row, drow, row))
	fr.markDirty(hn, "")
	vc.setHeap(fr.st, hn, hs, ite(eq(n, "0"), h, store(h, sx("sarr", d.T), row)))
	return fr.mkVal(n, types.Typ[types.Int])
}


// generatedGetter models the plain field getters of the generated protobuf package
// (func (m *T) GetX() F { if m != nil { return m.X }; return zero }). Oneof accessors, which
// have no field of their own name, are not modelled.
func (fr *Frame) generatedGetter(callee *ssa.Function, args []*Val) *Val {
	p := pkgOf(callee)
	if p == nil || !strings.Contains(p.Pkg.Path(), "iscp-proto/gen") || !strings.HasPrefix(callee.Name(), "Get") || len(args) != 1 {
		return nil
	}
	recv := callee.Signature.Recv()
	if recv == nil || callee.Signature.Results().Len() != 1 {
		return nil
	}
	pt, ok := recv.Type().Underlying().(*types.Pointer)
	if !ok {
		return nil
	}
	st, ok := pt.Elem().Underlying().(*types.Struct)
	if !ok {
		return nil
	}
	fname := strings.TrimPrefix(callee.Name(), "Get")
	rt := callee.Signature.Results().At(0).Type()
	for i := 0; i < st.NumFields(); i++ {
		if st.Field(i).Name() != fname || !types.Identical(st.Field(i).Type(), rt) || isStruct(rt) {
			continue
		}
		hn := fieldHeapName(pt.Elem(), i)
		hs := arrSort(SInt, fr.U().sortOf(rt))
		t := ite(eq(args[0].T, "0"), fr.zero(rt), sel(fr.vc.heap(fr.st, hn, hs), args[0].T))
		v := fr.mkVal(fr.vc.define("getter", fr.U().sortOf(rt), t), rt)
		fr.vc.assume(fr.reach, fr.wf(v.T, rt))
		return v
	}
	return nil
}

// callAnchorName is the text an `assert call X` / `after call X` anchor is matched against:
// the callee's full name for static and resolved calls (plus the field or variable a dynamic
// call goes through), the interface method for invokes.
func callAnchorName(c *ssa.CallCommon, fv *Val) string {
	if c.IsInvoke() {
		return ifaceMethodName(c)
	}
	if sc := c.StaticCallee(); sc != nil {
		return sc.String()
	}
	what := ""
	if fv != nil && fv.Fn != nil {
		what = fv.Fn.String()
	}
	if c.Value != nil {
		dyn := "dynamic " + c.Value.Name()
		if u, ok := c.Value.(*ssa.UnOp); ok {
			if g, ok := u.X.(*ssa.Global); ok {
				dyn = "dynamic global " + g.Name()
			}
			if fa, ok := u.X.(*ssa.FieldAddr); ok {
				if st, ok := deref(fa.X.Type()).Underlying().(*types.Struct); ok {
					dyn = "dynamic field " + st.Field(fa.Field).Name()
				}
			}
		}
		what = strings.TrimSpace(what + " " + dyn)
	}
	return what
}
