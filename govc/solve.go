package main

import (
	"bytes"
	"context"
	"fmt"
	"os"
	"os/exec"
	"path/filepath"
	"sort"
	"strings"
	"sync"
	"time"
)

type SolverCfg struct {
	Name string
	Path string
	Args func(file string, timeoutS int) []string
}

var solvers = []SolverCfg{
	{"z3-5.1.0", "z3-new", func(f string, t int) []string { return []string{"-smt2", fmt.Sprintf("-T:%d", t), f} }},
	{"z3-4.8.12", "/usr/bin/z3", func(f string, t int) []string { return []string{"-smt2", fmt.Sprintf("-T:%d", t), f} }},
	{"cvc5-1.0", "cvc5", func(f string, t int) []string {
		return []string{"--incremental", "--produce-models", fmt.Sprintf("--tlimit=%d", t*1000), f}
	}},
}

// batchScript renders all obligations of a VC as one incremental script.
func (vc *VC) batchScript(perQueryMs int) string {
	var b strings.Builder
	b.WriteString(vc.scriptPrefix())
	fmt.Fprintf(&b, "(set-option :timeout %d)\n", perQueryMs)
	oi := 0
	obls := vc.sortedObls()
	emit := func(upto int) {
		for oi < len(obls) && obls[oi].CmdIdx <= upto {
			o := obls[oi]
			if o.Status == "unresolved" {
				oi++
				continue
			}
			if vc.prop != "" && !hasProp(o.Props, vc.prop) {
				o.Status = "unclaimed"
				oi++
				continue
			}
			if o.Cover {
				fmt.Fprintf(&b, "(set-option :timeout 1500)\n")
			}
			fmt.Fprintf(&b, "(echo \"OBL %d\")\n(push 1)\n(assert %s)\n(check-sat)\n(pop 1)\n", oi, o.Goal)
			if o.Cover {
				fmt.Fprintf(&b, "(set-option :timeout %d)\n", perQueryMs)
			}
			oi++
		}
	}
	for i, c := range vc.cmds {
		emit(i)
		b.WriteString(c)
		b.WriteByte('\n')
	}
	emit(len(vc.cmds))
	return b.String()
}

func (vc *VC) sortedObls() []*Obl {
	obls := append([]*Obl(nil), vc.obls...)
	sort.SliceStable(obls, func(i, j int) bool { return obls[i].CmdIdx < obls[j].CmdIdx })
	return obls
}

// singleScript renders one obligation standalone (with get-model).
func (vc *VC) singleScript(o *Obl, cvc bool) string {
	var b strings.Builder
	pre := vc.scriptPrefix()
	b.WriteString(pre)
	for i := 0; i < o.CmdIdx && i < len(vc.cmds); i++ {
		b.WriteString(vc.cmds[i])
		b.WriteByte('\n')
	}
	fmt.Fprintf(&b, "(assert %s)\n(check-sat)\n(get-model)\n", o.Goal)
	return b.String()
}

func runSolver(ctx context.Context, s SolverCfg, file string, timeoutS int) (string, float64) {
	t0 := time.Now()
	cctx, cancel := context.WithTimeout(ctx, time.Duration(timeoutS+5)*time.Second)
	defer cancel()
	cmd := exec.CommandContext(cctx, s.Path, s.Args(file, timeoutS)...)
	var out bytes.Buffer
	cmd.Stdout = &out
	cmd.Stderr = &out
	cmd.Run()
	return out.String(), time.Since(t0).Seconds()
}

func firstStatus(out string) string {
	for _, l := range strings.Split(out, "\n") {
		l = strings.TrimSpace(l)
		if strings.HasPrefix(l, "(error") {
			return "error" // an error before the verdict invalidates it
		}
		switch l {
		case "sat", "unsat", "unknown", "timeout":
			return l
		}
	}
	return "error"
}

// Solve discharges all obligations of vc. dir receives the SMT files.
func (vc *VC) Solve(dir string, quickMs int, raceS int) {
	os.MkdirAll(dir, 0o755)
	pkgName := ""
	if p := pkgOf(vc.fn); p != nil {
		pkgName = p.Pkg.Path() + "."
	}
	base := filepath.Join(dir, sanitize(pkgName+relFuncName(vc.fn))) // package-qualified: (*Transport).Read exists in several packages
	if vc.lemma != nil {
		base = filepath.Join(dir, "lemma."+sanitize(vc.lemma.Name))
	}
	obls := vc.sortedObls()
	if len(obls) == 0 {
		return
	}
	for _, o := range obls {
		o.vc = vc
	}
	if len(vc.unsup) > 0 {
		for _, o := range obls {
			o.Status = "unsupported"
			o.Model = "function is outside the supported subset: " + strings.Join(sortedKeys(vc.unsup), "; ")
		}
		return
	}
	script := vc.batchScript(quickMs)
	file := base + ".batch.smt2"
	os.WriteFile(file, []byte(script), 0o644)
	total := (quickMs/1000+1)*len(obls) + 10
	out, secs := runSolver(context.Background(), solvers[0], file, total)
	// parse
	cur := -1
	got := map[int]string{}
	for _, l := range strings.Split(out, "\n") {
		l = strings.TrimSpace(l)
		if strings.HasPrefix(l, "OBL ") {
			fmt.Sscanf(l, "OBL %d", &cur)
			continue
		}
		if strings.HasPrefix(l, "\"OBL ") {
			fmt.Sscanf(l, "\"OBL %d\"", &cur)
			continue
		}
		if cur >= 0 {
			switch l {
			case "sat", "unsat", "unknown", "timeout":
				if _, ok := got[cur]; !ok {
					got[cur] = l
				}
			default:
				if strings.HasPrefix(l, "(error") {
					if _, ok := got[cur]; !ok {
						got[cur] = "error: " + l
					}
				}
			}
		} else if strings.HasPrefix(l, "(error") {
			vc.note("solver error in prelude: %s", l)
			vc.preludeError = l
		}
	}
	if vc.preludeError != "" {
		got = map[int]string{} // nothing the batch run said can be trusted
	}
	per := secs / float64(len(obls))
	var wg sync.WaitGroup
	sem := make(chan struct{}, 4)
	for i, o := range obls {
		if o.Status == "unresolved" || o.Status == "unclaimed" {
			continue
		}
		st := got[i]
		o.Solver = solvers[0].Name
		o.TimeS = per
		want := "unsat"
		if o.Cover {
			if st == "sat" || st == "unknown" {
				o.Status = "covered"
				continue
			}
			if st == "unsat" {
				o.Status = "vacuous"
				continue
			}
		} else if st == want {
			o.Status = "discharged"
			continue
		}
		if vc.prop != "" && !hasProp(o.Props, vc.prop) {
			// not claimed under the property being checked: keep the batch verdict, do not spend solver time
			o.Status = "unclaimed:" + st
			continue
		}
		// race the solvers on the standalone query
		wg.Add(1)
		go func(i int, o *Obl, st string) {
			defer wg.Done()
			sem <- struct{}{}
			defer func() { <-sem }()
			vc.race(o, fmt.Sprintf("%s.obl%d", base, i), raceS, st)
		}(i, o, st)
	}
	wg.Wait()
	if vc.cross {
		// thorough tier: every obligation the first solver discharged is put to the other solvers too;
		// a `sat` from any of them is a solver disagreement (engine error), never a pass
		for i, o := range obls {
			if o.Status != "discharged" || o.Cover {
				continue
			}
			wg.Add(1)
			go func(i int, o *Obl) {
				defer wg.Done()
				sem <- struct{}{}
				defer func() { <-sem }()
				file := fmt.Sprintf("%s.x%d.smt2", base, i)
				os.WriteFile(file, []byte(vc.singleScript(o, false)), 0o644)
				for _, s := range solvers {
					if s.Name == o.Solver {
						continue
					}
					out, _ := runSolver(context.Background(), s, file, 20)
					st := firstStatus(out)
					o.Cross = append(o.Cross, s.Name+":"+st)
					if st == "sat" {
						o.Status = "solver-disagreement"
						o.Model = s.Name + " reports sat where " + o.Solver + " reported unsat\n" + out
					}
				}
			}(i, o)
		}
		wg.Wait()
	}
}

func (vc *VC) race(o *Obl, base string, raceS int, batchStatus string) {
	script := vc.singleScript(o, false)
	file := base + ".smt2"
	os.WriteFile(file, []byte(script), 0o644)
	type res struct {
		solver string
		status string
		out    string
		secs   float64
	}
	ctx, cancel := context.WithCancel(context.Background())
	defer cancel()
	ch := make(chan res, len(solvers))
	for _, s := range solvers {
		go func(s SolverCfg) {
			out, secs := runSolver(ctx, s, file, raceS)
			ch <- res{s.Name, firstStatus(out), out, secs}
		}(s)
	}
	var results []res
	decided := false
	for range solvers {
		r := <-ch
		results = append(results, r)
		if r.status == "unsat" || r.status == "sat" {
			decided = true
			o.Solver, o.TimeS = r.solver, r.secs
			if o.Cover {
				if r.status == "sat" {
					o.Status = "covered"
				} else {
					o.Status = "vacuous"
				}
			} else if r.status == "unsat" {
				o.Status = "discharged"
			} else {
				o.Status = "failed"
				o.Model = r.out
			}
			cancel()
			break
		}
	}
	if !decided {
		if o.Cover {
			o.Status = "covered" // unknown is acceptable for cover queries with quantified axioms (DESIGN 4)
			return
		}
		o.Status = "undecided"
		var sb strings.Builder
		for _, r := range results {
			fmt.Fprintf(&sb, "%s: %s (%.1fs)\n", r.solver, r.status, r.secs)
		}
		o.Model = sb.String()
	}
}
