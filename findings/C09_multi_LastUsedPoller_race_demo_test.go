package multi

import (
	"context"
	"sync"
	"testing"

	"github.com/aptpod/iscp-go/log"
	"github.com/aptpod/iscp-go/transport"
)

// LastUsedPoller.Get reads Transport.currentTransportID without Transport.mu while transportIDLoop writes it under the lock.
func TestRaceDemo_LastUsedPollerGet(t *testing.T) {
	ctx, cancel := context.WithCancel(context.Background())
	defer cancel()
	idCh := make(chan transport.TransportID)
	m := &Transport{ctx: ctx, cancel: cancel, transportMap: map[transport.TransportID]transport.Transport{"a": nil, "b": nil}, currentTransportID: "a", transportIDCh: idCh, logger: log.NewNop()}
	p := NewLastReadPoller()
	p.SetMultiTransport(m)
	m.lastReadTransportID = "a"
	var wg sync.WaitGroup
	wg.Add(2)
	go func() { defer wg.Done(); m.transportIDLoop() }()
	go func() {
		defer wg.Done()
		for i := 0; i < 2000; i++ {
			_ = p.Get()
		}
	}()
	for i := 0; i < 2000; i++ {
		if i%2 == 0 {
			idCh <- "b"
		} else {
			idCh <- "a"
		}
	}
	cancel()
	close(idCh)
	wg.Wait()
}
