package iscp_test

// Demonstration for C10 (place in iscp/): the wake-ups sent to an event dispatcher when its context
// ends were bare Broadcasts, while dispatchLoop looks at the context and then Waits with cond.L held
// in between: a wake-up falling into that window is lost and the dispatcher goroutine of a closed
// stream sleeps forever - a goroutine started by the library that survives Close. Public API only;
// the window is a few nanoseconds wide, so the demonstration opens and closes 1.6 million upstreams
// (four connections in parallel, about 40 s) and then counts the dispatcher goroutines that are left:
// before fix 3b0063a between 0 and 3 per 400000 cycles (5 runs: 3, 0, 2, 1, 0), after it none.
//
// Run:  go test -count=1 -timeout 900s -run TestDemo_DispatchLoopLostWakeup ./iscp/

import (
	"context"
	"runtime"
	"strings"
	"sync"
	"testing"
	"time"

	. "github.com/aptpod/iscp-go/iscp"
	"github.com/aptpod/iscp-go/message"
	"github.com/aptpod/iscp-go/transport"
	"github.com/google/uuid"
	"github.com/stretchr/testify/require"
)

func TestDemo_DispatchLoopLostWakeup(t *testing.T) {
	const conns, cycles = 4, 400000
	var dialers []*dialer
	for i := 0; i < conns; i++ {
		dialers = append(dialers, newDialer(transport.NegotiationParams{}))
	}
	registerTestTransport(t, dialers)
	sid := uuid.MustParse("11111111-1111-1111-1111-111111111111")
	for _, d := range dialers {
		d := d
		go func() {
			mockConnectRequest(t, d.srv)
			var alias uint32
			for {
				msg, err := d.srv.Read()
				if err != nil {
					return
				}
				switch m := msg.(type) {
				case *message.Ping:
					_ = d.srv.Write(&message.Pong{RequestID: m.RequestID})
				case *message.UpstreamOpenRequest:
					alias++
					_ = d.srv.Write(&message.UpstreamOpenResponse{RequestID: m.RequestID, AssignedStreamID: sid, AssignedStreamIDAlias: alias,
						ResultCode: message.ResultCodeSucceeded, ResultString: "OK", ExtensionFields: &message.UpstreamOpenResponseExtensionFields{}})
				case *message.UpstreamCloseRequest:
					_ = d.srv.Write(&message.UpstreamCloseResponse{RequestID: m.RequestID, ResultCode: message.ResultCodeSucceeded, ResultString: "OK"})
				case *message.Disconnect:
					return
				}
			}
		}()
	}
	ctx := context.Background()
	var cs []*Conn
	for i := 0; i < conns; i++ {
		conn, err := Connect("dummy", TransportTest, WithConnNodeID("11111111-1111-1111-1111-111111111111"))
		require.NoError(t, err)
		cs = append(cs, conn)
	}
	var wg sync.WaitGroup
	for _, conn := range cs {
		conn := conn
		wg.Add(1)
		go func() {
			defer wg.Done()
			for i := 0; i < cycles; i++ {
				up, err := conn.OpenUpstream(ctx, "session", WithUpstreamCloseTimeout(50*time.Millisecond),
					WithUpstreamClosedEventHandler(UpstreamClosedEventHandlerFunc(func(*UpstreamClosedEvent) {})))
				if err != nil {
					t.Errorf("OpenUpstream: %v", err)
					return
				}
				if err := up.Close(ctx); err != nil {
					t.Errorf("Close: %v", err)
					return
				}
			}
		}()
	}
	wg.Wait()
	time.Sleep(2 * time.Second)
	buf := make([]byte, 64<<20)
	buf = buf[:runtime.Stack(buf, true)]
	alive := strings.Count(string(buf), "eventDispatcher).dispatchLoop")
	t.Logf("dispatchLoop goroutines alive after %d open/close cycles: %d (%d belong to the connections)", conns*cycles, alive, conns)
	if alive > conns {
		t.Errorf("%d event dispatcher goroutines of closed streams never ended", alive-conns)
	}
	for _, conn := range cs {
		_ = conn.Close(ctx)
	}
}
