package iscp_test

// Demonstration for C01 (place in iscp/; external test using iscp/helper_test.go; public API only):
// WriteDataPoints hands the caller's variadic slice to the flush loop, which copies it only after
// WriteDataPoints has returned. A caller that reuses its scratch slice for the next batch - the
// usual `batch = append(batch[:0], ...)` loop - changes points the library has already accepted:
// the broker receives points that were never written in that position and misses others.

import (
	"context"
	"sort"
	"testing"
	"time"

	. "github.com/aptpod/iscp-go/iscp"
	"github.com/aptpod/iscp-go/message"
	"github.com/aptpod/iscp-go/transport"
	"github.com/google/uuid"
	"github.com/stretchr/testify/require"
)

func TestDemoC01_CallerReusesSliceAfterWrite(t *testing.T) {
	const batches, per = 400, 2
	d := newDialer(transport.NegotiationParams{})
	RegisterDialer(TransportTest, func() transport.Dialer { return d })
	got := make(chan []byte, batches*per*2)
	go func() {
		mockConnectRequest(t, d.srv)
		for {
			msg, err := d.srv.Read()
			if err != nil {
				return
			}
			switch m := msg.(type) {
			case *message.Ping:
				_ = d.srv.Write(&message.Pong{RequestID: m.RequestID})
			case *message.UpstreamOpenRequest:
				_ = d.srv.Write(&message.UpstreamOpenResponse{RequestID: m.RequestID, AssignedStreamID: uuid.MustParse("11111111-1111-1111-1111-111111111111"),
					AssignedStreamIDAlias: 1, ResultCode: message.ResultCodeSucceeded, ResultString: "OK", ExtensionFields: &message.UpstreamOpenResponseExtensionFields{}})
			case *message.UpstreamChunk:
				for _, g := range m.StreamChunk.DataPointGroups {
					for _, p := range g.DataPoints {
						got <- p.Payload
					}
				}
				_ = d.srv.Write(&message.UpstreamChunkAck{StreamIDAlias: 1, Results: []*message.UpstreamChunkResult{{
					SequenceNumber: m.StreamChunk.SequenceNumber, ResultCode: message.ResultCodeSucceeded, ResultString: "OK"}},
					DataIDAliases: map[uint32]*message.DataID{}, ExtensionFields: &message.UpstreamChunkAckExtensionFields{}})
			case *message.UpstreamCloseRequest:
				_ = d.srv.Write(&message.UpstreamCloseResponse{RequestID: m.RequestID, ResultCode: message.ResultCodeSucceeded, ResultString: "OK"})
			}
		}
	}()
	ctx, cancel := context.WithTimeout(context.Background(), 20*time.Second)
	defer cancel()
	conn, err := Connect("dummy", TransportTest, WithConnNodeID("11111111-1111-1111-1111-111111111111"))
	require.NoError(t, err)
	defer d.Close()
	up, err := conn.OpenUpstream(ctx, "session", WithUpstreamFlushPolicyIntervalOnly(time.Hour))
	require.NoError(t, err)

	id := &message.DataID{Name: "n", Type: "t"}
	batch := make([]*message.DataPoint, 0, per)
	n := 0
	for b := 0; b < batches; b++ {
		batch = batch[:0] // the application reuses its scratch slice for every batch
		for k := 0; k < per; k++ {
			batch = append(batch, &message.DataPoint{ElapsedTime: time.Duration(n), Payload: []byte{byte(n >> 8), byte(n)}})
			n++
		}
		require.NoError(t, up.WriteDataPoints(ctx, id, batch...))
	}
	require.NoError(t, up.Flush(ctx))
	require.NoError(t, up.Close(ctx))

	var seen []int
	for len(got) > 0 {
		p := <-got
		seen = append(seen, int(p[0])<<8|int(p[1]))
	}
	sort.Ints(seen)
	require.Len(t, seen, n, "every accepted point reaches the broker once")
	for i, v := range seen {
		if v != i {
			t.Fatalf("the broker received point %d where point %d was written (a later batch overwrote an accepted one)", v, i)
		}
	}
}
