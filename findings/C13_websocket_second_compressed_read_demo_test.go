package websocket_test

// Demonstration (place in transport/websocket/): with compression negotiated, the library's Read
// stops at the end of the DEFLATE stream and never reads the websocket frame to EOF; the coder
// (default) backend then refuses to hand out the next frame reader, so the SECOND compressed
// message can never be read ("previous message not read to completion").

import (
	"bytes"
	"fmt"
	"net/http"
	"net/http/httptest"
	"testing"
	"time"

	cwebsocket "github.com/coder/websocket"

	"github.com/aptpod/iscp-go/transport"
	"github.com/aptpod/iscp-go/transport/compress"
	. "github.com/aptpod/iscp-go/transport/websocket"
	"github.com/aptpod/iscp-go/transport/websocket/coder"
)

func c13Params(typ compress.Type, level, windowBits int) NegotiationParams {
	return NegotiationParams{NegotiationParams: transport.NegotiationParams{
		Compress:           typ,
		CompressLevel:      &level,
		CompressWindowBits: &windowBits,
	}}
}

func TestDemoC13_SecondCompressedMessageIsReadable(t *testing.T) {
	for _, typ := range []compress.Type{compress.TypePerMessage, compress.TypeContextTakeOver} {
		t.Run(string(typ), func(t *testing.T) {
			params := c13Params(typ, 6, 15)
			type result struct {
				msgs [][]byte
				err  error
			}
			resC := make(chan result, 1)
			s := httptest.NewServer(http.HandlerFunc(func(w http.ResponseWriter, r *http.Request) {
				wsconn, err := cwebsocket.Accept(w, r, &cwebsocket.AcceptOptions{InsecureSkipVerify: true})
				if err != nil {
					resC <- result{err: err}
					return
				}
				tr := New(Config{Conn: coder.New(wsconn), NegotiationParams: params})
				defer tr.Close()
				var res result
				for i := 0; i < 3; i++ {
					m, err := tr.Read()
					if err != nil {
						res.err = fmt.Errorf("read #%d: %w", i, err)
						break
					}
					res.msgs = append(res.msgs, m)
				}
				resC <- res
			}))
			defer s.Close()
			wsconn, err := coder.Dial(s.URL, nil)
			if err != nil {
				t.Fatal(err)
			}
			tr := New(Config{Conn: wsconn, NegotiationParams: params})
			defer tr.Close()
			want := [][]byte{[]byte("hello hello hello hello"), []byte("second message second message"), []byte("third")}
			for _, m := range want {
				if err := tr.Write(m); err != nil {
					t.Fatal(err)
				}
			}
			select {
			case res := <-resC:
				if res.err != nil {
					t.Fatalf("peer failed after %d good messages: %v", len(res.msgs), res.err)
				}
				for i := range want {
					if !bytes.Equal(res.msgs[i], want[i]) {
						t.Fatalf("message %d: got %q want %q", i, res.msgs[i], want[i])
					}
				}
			case <-time.After(10 * time.Second):
				t.Fatal("timeout")
			}
		})
	}
}
