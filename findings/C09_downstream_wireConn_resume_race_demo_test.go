package iscp_test

// Demonstration for C09 (place in iscp/; external test using iscp/helper_test.go; public API only):
// Downstream.resume assigns d.wireConn without any lock, while ReadMetadata - called on the
// application's goroutine at any time - reads d.wireConn to acknowledge the metadata it returns.
// Nothing orders the application's read with the write the watcher makes when the connection is lost
// and re-dialled (the detector reports the pair whichever comes first; reading while the re-dial is in
// progress is the harmful order).
//
// Run:  go test -race -count=1 -run TestDemoC09_DownstreamWireConnResumeRace ./iscp/

import (
	"context"
	"testing"
	"time"

	. "github.com/aptpod/iscp-go/iscp"
	"github.com/aptpod/iscp-go/message"
	"github.com/aptpod/iscp-go/transport"
	"github.com/google/uuid"
	"github.com/stretchr/testify/require"
)

func TestDemoC09_DownstreamWireConnResumeRace(t *testing.T) {
	nodeID := "11111111-1111-1111-1111-111111111111"
	ds := []*dialer{newDialer(transport.NegotiationParams{}), newDialer(transport.NegotiationParams{})}
	var callCount int
	RegisterDialer(TransportTest, func() transport.Dialer {
		callCount++
		if callCount > 1 {
			time.Sleep(150 * time.Millisecond) // the re-dial takes a moment
		}
		if callCount > len(ds) {
			return ds[len(ds)-1]
		}
		return ds[callCount-1]
	})
	sid := uuid.MustParse("11111111-1111-1111-1111-111111111111")
	queued := make(chan struct{})
	go func() { // first broker: opens the downstream, queues one metadata message, then the transport is cut
		d := ds[0]
		mockConnectRequest(t, d.srv)
		for {
			msg, err := d.srv.Read()
			if err != nil {
				return
			}
			switch m := msg.(type) {
			case *message.Ping:
				_ = d.srv.Write(&message.Pong{RequestID: m.RequestID})
			case *message.DownstreamOpenRequest:
				_ = d.srv.Write(&message.DownstreamOpenResponse{RequestID: m.RequestID, AssignedStreamID: sid,
					ResultCode: message.ResultCodeSucceeded, ResultString: "OK", ExtensionFields: &message.DownstreamOpenResponseExtensionFields{}})
				_ = d.srv.Write(&message.DownstreamMetadata{RequestID: 1, SourceNodeID: nodeID, StreamIDAlias: m.DesiredStreamIDAlias,
					Metadata:        &message.BaseTime{Name: "n", BaseTime: time.Unix(0, 3).UTC()},
					ExtensionFields: &message.DownstreamMetadataExtensionFields{}})
				close(queued)
			}
		}
	}()
	done := make(chan struct{})
	go func() { // second broker: resumes the downstream
		defer close(done)
		d := ds[1]
		mockConnectRequest(t, d.srv)
		for {
			msg, err := d.srv.Read()
			if err != nil {
				return
			}
			switch m := msg.(type) {
			case *message.Ping:
				_ = d.srv.Write(&message.Pong{RequestID: m.RequestID})
			case *message.DownstreamResumeRequest:
				_ = d.srv.Write(&message.DownstreamResumeResponse{RequestID: m.RequestID, ResultCode: message.ResultCodeSucceeded, ResultString: "OK",
					ExtensionFields: &message.DownstreamResumeResponseExtensionFields{}})
			case *message.DownstreamCloseRequest:
				_ = d.srv.Write(&message.DownstreamCloseResponse{RequestID: m.RequestID, ResultCode: message.ResultCodeSucceeded, ResultString: "OK"})
			case *message.Disconnect:
				return
			}
		}
	}()

	ctx, cancel := context.WithTimeout(context.Background(), 30*time.Second)
	defer cancel()
	resumed := make(chan struct{}, 1)
	conn, err := Connect("dummy", TransportTest, WithConnNodeID(nodeID),
		WithConnPingInterval(100*time.Millisecond), WithConnPingTimeout(100*time.Millisecond))
	require.NoError(t, err)
	down, err := conn.OpenDownstream(ctx, []*message.DownstreamFilter{{SourceNodeID: nodeID, DataFilters: []*message.DataFilter{{Name: "#", Type: "#"}}}},
		WithDownstreamResumedEventHandler(DownstreamResumedEventHandlerFunc(func(*DownstreamResumedEvent) { resumed <- struct{}{} })))
	require.NoError(t, err)
	<-queued
	time.Sleep(20 * time.Millisecond) // the metadata message is now waiting in the stream's queue
	// the application reads it a moment after the connection is lost, while the re-dial is in progress
	// (ReadMetadata reads d.wireConn to acknowledge the message); nothing orders that read with the
	// write the watcher makes when it resumes the stream on the new connection
	readDone := make(chan struct{})
	go func() {
		defer close(readDone)
		time.Sleep(60 * time.Millisecond)
		rctx, rcancel := context.WithTimeout(ctx, 50*time.Millisecond)
		defer rcancel()
		_, _ = down.ReadMetadata(rctx)
	}()
	ds[0].srv.Close()
	<-readDone
	select {
	case <-resumed:
	case <-time.After(10 * time.Second):
		t.Fatal("the stream did not resume")
	}
	cctx, ccancel := context.WithTimeout(ctx, time.Second)
	_ = down.Close(cctx)
	ccancel()
	_ = conn.Close(ctx)
	ds[1].srv.Close()
	<-done
}
