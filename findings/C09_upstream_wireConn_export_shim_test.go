package iscp

// Shim for the demonstration C09_upstream_wireConn_resume_race_demo_test.go (both files go into iscp/):
// it starts one chunk sender goroutine - exactly the call flush makes with `go` - a little late,
// which is what the scheduler does to the sender started by the last flush before an outage when
// the machine is busy. Everything else in the demonstration is the library running by itself.

import (
	"context"
	"time"

	"github.com/aptpod/iscp-go/message"
)

func (u *Upstream) DemoLateSender(delay time.Duration) <-chan struct{} {
	done := make(chan struct{})
	go func() {
		defer close(done)
		time.Sleep(delay)
		ctx, cancel := context.WithCancel(context.Background())
		cancel() // the sender only has to get as far as reading u.wireConn and writing the chunk
		u.sendChunkAndWaitAck(ctx, &message.UpstreamChunk{StreamIDAlias: 1, StreamChunk: &message.StreamChunk{SequenceNumber: 1000000}}, make(chan *message.UpstreamChunkResult))
	}()
	return done
}
