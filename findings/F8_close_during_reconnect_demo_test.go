package iscp

// F8 demonstration: Conn.Close during an in-flight re-dial makes (*Conn).reconnect panic.
//
// History driven against the real code (no production file is modified):
//
//  1. Connect through a pipe-backed test dialer; a scripted broker answers the ConnectRequest.
//  2. The broker side of the transport is closed -> Conn.run fails -> the library's background
//     goroutine enters (*Conn).reconnect, takes wireConnMu, sets state=Reconnecting and re-dials.
//  3. The re-dial (transport.Dialer.Dial) is held open by the test.
//  4. The application calls Conn.Close. (*Conn).close does state.Swap(Closed) first and only then
//     blocks on wireConnMu (held by reconnect). The test waits until state==Closed.
//  5. The re-dial is released and the broker answers the second ConnectRequest, so
//     connectWire() succeeds.
//  6. reconnect executes CompareAndSwap(Reconnecting -> Connected), which fails because the
//     state is Closed, and panics: "unexpected error: expected reconnecting but 2".
//
// TestF8_CloseDuringReconnectDial_Crash lets the library's own goroutine run step 6, so the
// test binary dies with an unrecovered panic (that crash IS the demonstration).
//
// TestF8_CloseDuringReconnectDial_Recovered drives the identical state history but makes the
// reconnect call from the test goroutine, so that the panic can be caught with recover() and
// reported as a normal test failure.

import (
	"context"
	"fmt"
	"sync/atomic"
	"testing"
	"time"

	"github.com/aptpod/iscp-go/encoding"
	"github.com/aptpod/iscp-go/encoding/protobuf"
	"github.com/aptpod/iscp-go/message"
	"github.com/aptpod/iscp-go/transport"
	"github.com/aptpod/iscp-go/wire"
)

const f8Transport TransportName = "f8-test"

var (
	_ transport.Dialer    = (*f8Dialer)(nil)
	_ transport.Transport = (*f8Dialer)(nil)
)

// f8Dialer is a pipe-backed transport + dialer (same shape as the `dialer` helper used by
// conn_test.go, which lives in package iscp_test and therefore is not reachable from here).
type f8Dialer struct {
	transport.ReadWriter
	srv               wire.EncodingTransport
	negotiationParams transport.NegotiationParams

	// dialing is closed when Dial has been entered; Dial returns once gate is closed.
	// Both are nil for a dialer that must not block.
	dialing chan struct{}
	gate    chan struct{}
}

func newF8Dialer(blocking bool) *f8Dialer {
	cli, srv := transport.Pipe()
	d := &f8Dialer{
		ReadWriter: cli,
		srv: encoding.NewTransport(&encoding.TransportConfig{
			Transport: srv,
			Encoding:  protobuf.NewEncoding(),
		}),
	}
	if blocking {
		d.dialing = make(chan struct{})
		d.gate = make(chan struct{})
	}
	return d
}

func (d *f8Dialer) Dial(c transport.DialConfig) (transport.Transport, error) {
	d.negotiationParams = c.NegotiationParams()
	if d.gate != nil {
		close(d.dialing)
		<-d.gate // the network dial is "in progress"
	}
	return d, nil
}

func (d *f8Dialer) CloseWithStatus(transport.CloseStatus) error { return d.Close() }
func (d *f8Dialer) AsUnreliable() (transport.UnreliableTransport, bool) {
	return nil, false
}
func (d *f8Dialer) NegotiationParams() transport.NegotiationParams { return d.negotiationParams }
func (d *f8Dialer) Name() transport.Name                           { return transport.Name(f8Transport) }

// f8Broker answers the ConnectRequest and then keeps serving Ping/ignoring everything else.
func f8Broker(srv wire.EncodingTransport) {
	for {
		msg, err := srv.Read()
		if err != nil {
			return
		}
		switch m := msg.(type) {
		case *message.ConnectRequest:
			_ = srv.Write(&message.ConnectResponse{
				RequestID:       m.RequestID,
				ResultCode:      message.ResultCodeSucceeded,
				ExtensionFields: &message.ConnectResponseExtensionFields{},
			})
		case *message.Ping:
			_ = srv.Write(&message.Pong{RequestID: m.RequestID, ExtensionFields: &message.PongExtensionFields{}})
		}
	}
}

func f8WaitState(t *testing.T, c *Conn, want connStatusValue) {
	t.Helper()
	deadline := time.Now().Add(5 * time.Second)
	for !c.state.Is(want) {
		if time.Now().After(deadline) {
			t.Fatalf("state did not become %v (current=%v)", want, c.state.Current())
		}
		time.Sleep(time.Millisecond)
	}
}

// f8Setup connects a Conn whose second dial blocks until the returned dialer's gate is closed.
func f8Setup(t *testing.T) (conn *Conn, first, second *f8Dialer) {
	t.Helper()
	first, second = newF8Dialer(false), newF8Dialer(true)
	ds := []*f8Dialer{first, second}
	var n atomic.Int32
	customDialFuncs[f8Transport] = func() transport.Dialer { return ds[n.Add(1)-1] }
	go f8Broker(first.srv)
	go f8Broker(second.srv)

	conn, err := Connect("dummy", f8Transport, WithConnPingInterval(time.Minute), WithConnPingTimeout(time.Minute))
	if err != nil {
		t.Fatalf("Connect: %v", err)
	}
	f8WaitState(t, conn, connStatusConnected)
	return conn, first, second
}

// Crashes the test binary: the panic is raised in the goroutine started by ConnectWithConfig.
func TestF8_CloseDuringReconnectDial_Crash(t *testing.T) {
	conn, first, second := f8Setup(t)

	// transport failure -> run() fails -> background goroutine calls conn.reconnect()
	first.srv.Close()

	select {
	case <-second.dialing:
	case <-time.After(5 * time.Second):
		t.Fatal("library did not start re-dialing")
	}
	// reconnect holds wireConnMu, state is Reconnecting, dial is in flight.
	if got := conn.state.Current(); got != connStatusReconnecting {
		t.Fatalf("expected Reconnecting during the dial, got %v", got)
	}

	// Application closes the connection while the dial is in flight.
	closeDone := make(chan error, 1)
	go func() { closeDone <- conn.Close(context.Background()) }()
	f8WaitState(t, conn, connStatusClosed) // Swap(Closed) happened; Close now waits on wireConnMu
	select {
	case err := <-closeDone:
		t.Fatalf("Close returned (%v) although reconnect still holds wireConnMu", err)
	case <-time.After(50 * time.Millisecond):
	}

	t.Log("state=Closed while reconnect is dialing; releasing the dial now (expect process panic)")
	close(second.gate) // dial succeeds, broker answers ConnectRequest

	select {
	case err := <-closeDone:
		// Only reachable if the defect is absent.
		t.Logf("Close returned %v and no panic happened: defect NOT reproduced", err)
	case <-time.After(5 * time.Second):
		t.Fatal("neither panic nor Close completion")
	}
}

// Same history, but the reconnect call whose dial is interrupted is made by the test goroutine
// so the panic can be recovered and turned into an ordinary test failure.
func TestF8_CloseDuringReconnectDial_Recovered(t *testing.T) {
	conn, _, second := f8Setup(t)

	type result struct {
		panicked any
		err      error
	}
	recDone := make(chan result, 1)
	go func() {
		var r result
		defer func() {
			r.panicked = recover()
			recDone <- r
		}()
		// What the library's goroutine does after run() fails / what send() triggers.
		// The library goroutine also notices state=Reconnecting, calls reconnect itself and
		// parks on wireConnMu; after Close it gets ErrConnectionClosed and exits quietly.
		r.err = conn.reconnect(context.Background())
	}()

	select {
	case <-second.dialing:
	case <-time.After(5 * time.Second):
		t.Fatal("re-dial not started")
	}
	if got := conn.state.Current(); got != connStatusReconnecting {
		t.Fatalf("expected Reconnecting during the dial, got %v", got)
	}

	closeDone := make(chan error, 1)
	go func() { closeDone <- conn.Close(context.Background()) }()
	f8WaitState(t, conn, connStatusClosed)

	close(second.gate)

	select {
	case r := <-recDone:
		select {
		case err := <-closeDone:
			t.Logf("Close returned: %v", err)
		case <-time.After(5 * time.Second):
			t.Error("Close did not return")
		}
		if r.panicked != nil {
			t.Fatalf("DEFECT REPRODUCED: (*Conn).reconnect panicked after a concurrent Close: %v", fmt.Sprint(r.panicked))
		}
		t.Logf("reconnect returned err=%v without panic: defect NOT reproduced", r.err)
	case <-time.After(5 * time.Second):
		t.Fatal("reconnect did not finish")
	}
}
