package wire

import (
	"context"
	"sync"
	"testing"

	"github.com/aptpod/iscp-go/message"
	uuid "github.com/google/uuid"
)

// SendUpstreamChunk reads upstreams.messageWriters without upstreams.mu while openUpstream writes it under the lock.
func TestRaceDemo_SendUpstreamChunk(t *testing.T) {
	c := &ClientConn{upstreams: &clientUpstreams{mu: &sync.RWMutex{}, acks: map[uint32]chan *message.UpstreamChunkAck{}, aliases: map[uuid.UUID]uint32{}, messageWriters: map[uint32]EncodingTransport{}}}
	var wg sync.WaitGroup
	wg.Add(2)
	go func() {
		defer wg.Done()
		for i := 0; i < 2000; i++ {
			c.openUpstream(context.Background(), message.QoSReliable, uuid.New(), uint32(i+10))
		}
	}()
	go func() {
		defer wg.Done()
		for i := 0; i < 2000; i++ {
			c.SendUpstreamChunk(context.Background(), &message.UpstreamChunk{StreamIDAlias: 1})
		}
	}()
	wg.Wait()
}
