package iscp_test

// Demonstration (place in iscp/; external test using iscp/helper_test.go):
// Upstream.Close takes a shortcut when the HIGHEST acknowledged sequence number equals the last
// issued one. Acks are per chunk, not cumulative: a broker that acknowledges chunk 3 first and
// chunks 1 and 2 a little later (reordered acks) makes Close send the close request and return
// while two chunks are still unacknowledged - their results never reach the ack hook.
//
// Run:  go test -count=1 -run TestDemoC01_CloseWaitsForReorderedAcks ./iscp/

import (
	"context"
	"sync"
	"testing"
	"time"

	. "github.com/aptpod/iscp-go/iscp"
	"github.com/aptpod/iscp-go/message"
	"github.com/aptpod/iscp-go/transport"
	"github.com/google/uuid"
	"github.com/stretchr/testify/require"
)

type c01AckHook struct {
	mu   sync.Mutex
	seqs []uint32
}

func (h *c01AckHook) HookAfter(streamID uuid.UUID, ack UpstreamChunkResult) {
	h.mu.Lock()
	h.seqs = append(h.seqs, ack.SequenceNumber)
	h.mu.Unlock()
}

func TestDemoC01_CloseWaitsForReorderedAcks(t *testing.T) {
	d := newDialer(transport.NegotiationParams{})
	RegisterDialer(TransportTest, func() transport.Dialer { return d })
	ack := func(alias uint32, seq uint32) {
		_ = d.srv.Write(&message.UpstreamChunkAck{
			StreamIDAlias:   alias,
			Results:         []*message.UpstreamChunkResult{{SequenceNumber: seq, ResultCode: message.ResultCodeSucceeded, ResultString: "OK"}},
			DataIDAliases:   map[uint32]*message.DataID{},
			ExtensionFields: &message.UpstreamChunkAckExtensionFields{},
		})
	}
	got3 := make(chan struct{})
	var closeBeforeAcks bool
	var acked12 bool
	var bmu sync.Mutex
	brokerDone := make(chan struct{})
	go func() {
		defer close(brokerDone)
		mockConnectRequest(t, d.srv)
		n := 0
		for {
			msg, err := d.srv.Read()
			if err != nil {
				return
			}
			switch m := msg.(type) {
			case *message.Ping:
				_ = d.srv.Write(&message.Pong{RequestID: m.RequestID, ExtensionFields: &message.PongExtensionFields{}})
			case *message.UpstreamOpenRequest:
				_ = d.srv.Write(&message.UpstreamOpenResponse{RequestID: m.RequestID, AssignedStreamID: uuid.MustParse("11111111-1111-1111-1111-111111111111"),
					AssignedStreamIDAlias: 1, ResultCode: message.ResultCodeSucceeded, DataIDAliases: map[uint32]*message.DataID{}})
			case *message.UpstreamChunk:
				n++
				if n == 3 {
					// reordered acks: the last chunk first, the two earlier ones 300 ms later
					ack(1, 3)
					close(got3)
					go func() {
						time.Sleep(300 * time.Millisecond)
						bmu.Lock()
						acked12 = true
						bmu.Unlock()
						ack(1, 1)
						ack(1, 2)
					}()
				}
			case *message.UpstreamCloseRequest:
				bmu.Lock()
				closeBeforeAcks = !acked12
				bmu.Unlock()
				_ = d.srv.Write(&message.UpstreamCloseResponse{RequestID: m.RequestID, ResultCode: message.ResultCodeSucceeded, ExtensionFields: &message.UpstreamCloseResponseExtensionFields{}})
			case *message.Disconnect:
				return
			}
		}
	}()
	ctx, cancel := context.WithTimeout(context.Background(), 10*time.Second)
	defer cancel()
	conn, err := Connect("dummy", TransportTest, WithConnNodeID("11111111-1111-1111-1111-111111111111"))
	require.NoError(t, err)
	hook := &c01AckHook{}
	up, err := conn.OpenUpstream(ctx, "session", WithUpstreamFlushPolicyImmediately(), WithUpstreamReceiveAckHooker(hook), WithUpstreamCloseTimeout(5*time.Second))
	require.NoError(t, err)
	for i := 0; i < 3; i++ {
		require.NoError(t, up.WriteDataPoints(ctx, &message.DataID{Name: "n", Type: "t"}, &message.DataPoint{ElapsedTime: time.Duration(i), Payload: []byte{byte(i)}}))
	}
	<-got3
	time.Sleep(50 * time.Millisecond) // the ack for chunk 3 has arrived, those for 1 and 2 have not
	require.NoError(t, up.Close(ctx))
	hook.mu.Lock()
	reported := len(hook.seqs)
	hook.mu.Unlock()
	bmu.Lock()
	early := closeBeforeAcks
	bmu.Unlock()
	_ = conn.Close(ctx)
	<-brokerDone
	if early || reported != 3 {
		t.Fatalf("Close returned with %d of 3 chunk results reported to the ack hook; close request sent before the broker had acknowledged chunks 1 and 2: %v", reported, early)
	}
}
