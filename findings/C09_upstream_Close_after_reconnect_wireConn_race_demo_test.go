package iscp_test

// Demonstration for C09 (place in iscp/, run with the race detector):
// Upstream.closeWithError read u.wireConn without u.mu when it was reached from Close (or from a
// failed resume), while the stream's watcher goroutine swaps that field under u.mu in resume.
// An application that closes an upstream right after a reconnect - Close finds the stream in the
// resuming state, skips the drain and goes straight to the close request - races with the watcher
// re-attaching the stream to the new connection. Public API only; before fix 5833a57 the race
// detector reported the pair in 6 of 6 runs, after it never (20 runs).
//
// Run:  go test -race -count=1 -run TestDemoC09_UpstreamCloseDuringResume ./iscp/

import (
	"context"
	"testing"
	"time"

	. "github.com/aptpod/iscp-go/iscp"
	"github.com/aptpod/iscp-go/message"
	"github.com/aptpod/iscp-go/transport"
	"github.com/google/uuid"
	"github.com/stretchr/testify/require"
)

func TestDemoC09_UpstreamCloseDuringResume(t *testing.T) {
	dialers := []*dialer{newDialer(transport.NegotiationParams{}), newDialer(transport.NegotiationParams{})}
	registerTestTransport(t, dialers)
	sid := uuid.MustParse("11111111-1111-1111-1111-111111111111")
	broker := func(d *dialer) {
		mockConnectRequest(t, d.srv)
		for {
			msg, err := d.srv.Read()
			if err != nil {
				return
			}
			switch m := msg.(type) {
			case *message.Ping:
				_ = d.srv.Write(&message.Pong{RequestID: m.RequestID})
			case *message.UpstreamOpenRequest:
				_ = d.srv.Write(&message.UpstreamOpenResponse{RequestID: m.RequestID, AssignedStreamID: sid, AssignedStreamIDAlias: 1,
					ResultCode: message.ResultCodeSucceeded, ResultString: "OK", ExtensionFields: &message.UpstreamOpenResponseExtensionFields{}})
			case *message.UpstreamResumeRequest:
				time.Sleep(100 * time.Millisecond)
				_ = d.srv.Write(&message.UpstreamResumeResponse{RequestID: m.RequestID, AssignedStreamIDAlias: 1,
					ResultCode: message.ResultCodeSucceeded, ResultString: "OK", ExtensionFields: &message.UpstreamResumeResponseExtensionFields{}})
			case *message.UpstreamCloseRequest:
				_ = d.srv.Write(&message.UpstreamCloseResponse{RequestID: m.RequestID, ResultCode: message.ResultCodeSucceeded, ResultString: "OK"})
			case *message.Disconnect:
				return
			}
		}
	}
	go broker(dialers[0])
	done := make(chan struct{})
	go func() { defer close(done); broker(dialers[1]) }()

	ctx, cancel := context.WithTimeout(context.Background(), 30*time.Second)
	defer cancel()
	var up *Upstream
	closed := make(chan struct{})
	conn, err := Connect("dummy", TransportTest, WithConnNodeID("11111111-1111-1111-1111-111111111111"),
		WithConnPingInterval(100*time.Millisecond), WithConnPingTimeout(100*time.Millisecond),
		WithConnReconnectedEventHandler(ReconnectedEventHandlerFunc(func(*ReconnectedEvent) {
			go func() {
				defer close(closed)
				time.Sleep(20 * time.Millisecond)
				cctx, ccancel := context.WithTimeout(ctx, time.Second)
				_ = up.Close(cctx)
				ccancel()
			}()
		})))
	require.NoError(t, err)
	up, err = conn.OpenUpstream(ctx, "session", WithUpstreamCloseTimeout(50*time.Millisecond))
	require.NoError(t, err)

	dialers[0].Close()
	select {
	case <-closed:
	case <-time.After(10 * time.Second):
		t.Fatal("not closed within 10 s")
	}
	_ = conn.Close(ctx)
	dialers[1].Close()
	<-done
}
