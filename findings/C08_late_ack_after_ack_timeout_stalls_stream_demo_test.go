package iscp_test

// Demonstration for C08 (place in iscp/; external test using iscp/helper_test.go; public API only):
// with an ack timeout configured, the waiter of a chunk whose ack is late gives up, but the chunk's
// result channel stays registered. When the late ack arrives, processResult - holding the stream
// mutex - blocks sending it to that unbuffered channel nobody reads any more: the flush loop can no
// longer take the mutex, so every later write stays unsent and Flush never completes until the
// stream is closed. A delayed acknowledgement stalls the stream's internal dispatching.

import (
	"context"
	"testing"
	"time"

	. "github.com/aptpod/iscp-go/iscp"
	"github.com/aptpod/iscp-go/message"
	"github.com/aptpod/iscp-go/transport"
	"github.com/google/uuid"
	"github.com/stretchr/testify/require"
)

func TestDemoC08_LateAckAfterAckTimeoutDoesNotStallTheStream(t *testing.T) {
	d := newDialer(transport.NegotiationParams{})
	RegisterDialer(TransportTest, func() transport.Dialer { return d })
	chunks := make(chan uint32, 16)
	go func() { // a broker that acknowledges the first chunk late (after the client's ack timeout), later ones at once
		mockConnectRequest(t, d.srv)
		first := true
		for {
			msg, err := d.srv.Read()
			if err != nil {
				return
			}
			switch m := msg.(type) {
			case *message.Ping:
				_ = d.srv.Write(&message.Pong{RequestID: m.RequestID})
			case *message.UpstreamOpenRequest:
				_ = d.srv.Write(&message.UpstreamOpenResponse{RequestID: m.RequestID, AssignedStreamID: uuid.MustParse("11111111-1111-1111-1111-111111111111"),
					AssignedStreamIDAlias: 1, ResultCode: message.ResultCodeSucceeded, ResultString: "OK", ExtensionFields: &message.UpstreamOpenResponseExtensionFields{}})
			case *message.UpstreamChunk:
				chunks <- m.StreamChunk.SequenceNumber
				ack := &message.UpstreamChunkAck{StreamIDAlias: 1, Results: []*message.UpstreamChunkResult{{
					SequenceNumber: m.StreamChunk.SequenceNumber, ResultCode: message.ResultCodeSucceeded, ResultString: "OK"}},
					DataIDAliases: map[uint32]*message.DataID{}, ExtensionFields: &message.UpstreamChunkAckExtensionFields{}}
				if first {
					first = false
					go func() { time.Sleep(150 * time.Millisecond); _ = d.srv.Write(ack) }()
				} else {
					_ = d.srv.Write(ack)
				}
			case *message.UpstreamCloseRequest:
				_ = d.srv.Write(&message.UpstreamCloseResponse{RequestID: m.RequestID, ResultCode: message.ResultCodeSucceeded, ResultString: "OK"})
			}
		}
	}()
	ctx := context.Background()
	conn, err := Connect("dummy", TransportTest, WithConnNodeID("11111111-1111-1111-1111-111111111111"))
	require.NoError(t, err)
	defer d.Close()
	up, err := conn.OpenUpstream(ctx, "session", WithUpstreamFlushPolicyImmediately(), WithUpstreamAckTimeout(50*time.Millisecond),
		WithUpstreamAckInterval(time.Millisecond), WithUpstreamCloseTimeout(200*time.Millisecond))
	require.NoError(t, err)
	id := &message.DataID{Name: "n", Type: "t"}
	require.NoError(t, up.WriteDataPoints(ctx, id, &message.DataPoint{Payload: []byte{1}}))
	require.EqualValues(t, 1, <-chunks)
	time.Sleep(300 * time.Millisecond) // the ack timeout (50 ms) has passed, then the late ack (150 ms) has arrived

	// the stream must still work: a second write is cut and sent
	wctx, cancel := context.WithTimeout(ctx, time.Second)
	defer cancel()
	require.NoError(t, up.WriteDataPoints(wctx, id, &message.DataPoint{Payload: []byte{2}}))
	select {
	case seq := <-chunks:
		require.EqualValues(t, 2, seq)
	case <-time.After(2 * time.Second):
		t.Fatal("the second chunk was never sent: the late ack of the first one has stalled the stream (processResult blocks under the stream mutex)")
	}
	cctx, ccancel := context.WithTimeout(ctx, time.Second)
	defer ccancel()
	_ = up.Close(cctx)
}
