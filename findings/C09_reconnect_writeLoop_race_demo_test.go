package reconnect

import (
	"errors"
	"sync"
	"testing"
	"time"

	"github.com/aptpod/iscp-go/transport"
)

type failTr struct{ transport.Transport }

func (f *failTr) Write([]byte) error                     { time.Sleep(time.Millisecond); return errors.New("broken") }
func (f *failTr) Read() ([]byte, error)                  { select {} }
func (f *failTr) Close() error                           { return nil }
func (f *failTr) CloseWithStatus(transport.CloseStatus) error { return nil }

type failDialer struct{ n int32 }

func (d *failDialer) Dial(c transport.DialConfig) (transport.Transport, error) {
	if c.Reconnect {
		return nil, errors.New("unreachable")
	}
	return &failTr{}, nil
}

// the write loop reads writeResCh[data.id] without writeResMu while concurrent writers register their channels under the lock
func TestRaceDemo_WriteLoopFailurePath(t *testing.T) {
	tr, err := Dial(DialConfig{Dialer: &failDialer{}, MaxReconnectAttempts: 1, ReconnectInterval: time.Millisecond})
	if err != nil {
		t.Fatal(err)
	}
	var wg sync.WaitGroup
	for i := 0; i < 8; i++ {
		wg.Add(1)
		go func() {
			defer wg.Done()
			for j := 0; j < 50; j++ {
				tr.Write([]byte("x"))
			}
		}()
	}
	wg.Wait()
}
