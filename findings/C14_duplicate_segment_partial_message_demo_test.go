package segment

// Demonstration for C14 (run inside /repo/internal/segment, e.g. with go test -overlay): a segment
// that arrives twice was counted twice, so a duplicate plus a loss completed the message early and
// Receive handed up a partial message ("never a partial or mixed message if any segment is missing").

import (
	"bytes"
	"testing"
	"time"
)

func dg(seq uint32, maxIdx, idx uint16, payload string) []byte {
	b := []byte{byte(seq >> 24), byte(seq >> 16), byte(seq >> 8), byte(seq), byte(maxIdx >> 8), byte(maxIdx), byte(idx >> 8), byte(idx)}
	return append(b, payload...)
}

func TestC14Demo_DuplicateSegmentDoesNotCompleteMessage(t *testing.T) {
	rb := &ReadBuffers{ReadBuffer: map[uint32]*ReadBuffer{}, ReadBufferExpiry: time.Minute}
	// a two-segment message "AB|CD": segment 0 arrives twice, segment 1 is lost so far
	if m, ok, _ := rb.Receive(dg(7, 1, 0, "AB")); ok {
		t.Fatalf("complete after one of two segments: %q", m)
	}
	if m, ok, _ := rb.Receive(dg(7, 1, 0, "AB")); ok {
		t.Fatalf("a duplicate of segment 0 completed the message although segment 1 is missing: handed up %q", m)
	}
	// the missing segment arrives: now, and only now, the whole message is handed up
	m, ok, _ := rb.Receive(dg(7, 1, 1, "CD"))
	if !ok || !bytes.Equal(m, []byte("ABCD")) {
		t.Fatalf("got %q, %v; want ABCD, true", m, ok)
	}
}
