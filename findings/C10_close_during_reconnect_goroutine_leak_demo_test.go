package iscp_test

// Demonstration (place in iscp/; external test using iscp/helper_test.go):
// when Conn.Close is called while the connection is reconnecting, the watcher goroutine of every
// open stream stays behind forever: it waits in connStatus.WaitUntil(Connected), which - unlike
// WaitUntilOrClosed - never returns on a Closed connection.
//
// Run:  go test -count=1 -run TestDemoC10_CloseDuringReconnectLeavesNoGoroutine ./iscp/

import (
	"context"
	"errors"
	"sync/atomic"
	"testing"
	"time"

	. "github.com/aptpod/iscp-go/iscp"
	"github.com/aptpod/iscp-go/message"
	"github.com/aptpod/iscp-go/transport"
	"github.com/google/uuid"
	"github.com/stretchr/testify/require"
	"go.uber.org/goleak"
)

type failingDialer struct{}

func (failingDialer) Dial(transport.DialConfig) (transport.Transport, error) {
	return nil, errors.New("broker unreachable")
}

func TestDemoC10_CloseDuringReconnectLeavesNoGoroutine(t *testing.T) {
	defer goleak.VerifyNone(t)
	d := newDialer(transport.NegotiationParams{})
	var dials int32
	RegisterDialer(TransportTest, func() transport.Dialer {
		if atomic.AddInt32(&dials, 1) == 1 {
			return d
		}
		return failingDialer{} // every re-dial fails: the connection stays in Reconnecting
	})
	go func() {
		mockConnectRequest(t, d.srv)
		for {
			msg, err := d.srv.Read()
			if err != nil {
				return
			}
			switch m := msg.(type) {
			case *message.Ping:
				_ = d.srv.Write(&message.Pong{RequestID: m.RequestID, ExtensionFields: &message.PongExtensionFields{}})
			case *message.UpstreamOpenRequest:
				_ = d.srv.Write(&message.UpstreamOpenResponse{
					RequestID:             m.RequestID,
					AssignedStreamID:      uuid.MustParse("11111111-1111-1111-1111-111111111111"),
					AssignedStreamIDAlias: 1,
					ResultCode:            message.ResultCodeSucceeded,
					DataIDAliases:         map[uint32]*message.DataID{},
				})
			}
		}
	}()
	ctx, cancel := context.WithTimeout(context.Background(), 10*time.Second)
	defer cancel()
	conn, err := Connect("dummy", TransportTest, WithConnNodeID("11111111-1111-1111-1111-111111111111"),
		WithConnPingInterval(50*time.Millisecond), WithConnPingTimeout(100*time.Millisecond))
	require.NoError(t, err)
	_, err = conn.OpenUpstream(ctx, "session")
	require.NoError(t, err)
	d.srv.Close()                      // the broker goes away; re-dials fail
	time.Sleep(500 * time.Millisecond) // the connection is now reconnecting, the stream waits for Connected
	require.NoError(t, conn.Close(ctx))
	time.Sleep(300 * time.Millisecond)
}
