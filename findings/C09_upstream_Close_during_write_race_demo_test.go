package iscp_test

// Demonstration (place in iscp/; external test using iscp/helper_test.go):
// Upstream.Close snapshots the send buffer through stateWithoutLock WITHOUT holding u.mu
// (closeWithError), while the flush loop appends to that buffer under u.mu when another
// goroutine is still writing: a data race (and a possible "concurrent map iteration and map
// write" crash) between Close and WriteDataPoints on the same stream.
//
// Run:  go test -race -count=1 -run TestDemoC09_CloseDuringWrite ./iscp/

import (
	"context"
	"sync"
	"testing"
	"time"

	. "github.com/aptpod/iscp-go/iscp"
	"github.com/aptpod/iscp-go/message"
	"github.com/aptpod/iscp-go/transport"
	"github.com/google/uuid"
	"github.com/stretchr/testify/require"
)

func TestDemoC09_CloseDuringWrite(t *testing.T) {
	for round := 0; round < 30; round++ {
		d := newDialer(transport.NegotiationParams{})
		RegisterDialer(TransportTest, func() transport.Dialer { return d })
		brokerDone := make(chan struct{})
		go func() {
			defer close(brokerDone)
			mockConnectRequest(t, d.srv)
			for {
				msg, err := d.srv.Read()
				if err != nil {
					return
				}
				switch m := msg.(type) {
				case *message.Ping:
					_ = d.srv.Write(&message.Pong{RequestID: m.RequestID, ExtensionFields: &message.PongExtensionFields{}})
				case *message.UpstreamOpenRequest:
					_ = d.srv.Write(&message.UpstreamOpenResponse{
						RequestID:             m.RequestID,
						AssignedStreamID:      uuid.MustParse("11111111-1111-1111-1111-111111111111"),
						AssignedStreamIDAlias: 1,
						ResultCode:            message.ResultCodeSucceeded,
						ResultString:          "OK",
						DataIDAliases:         map[uint32]*message.DataID{},
					})
				case *message.UpstreamChunk:
					_ = d.srv.Write(&message.UpstreamChunkAck{
						StreamIDAlias: m.StreamIDAlias,
						Results: []*message.UpstreamChunkResult{{
							SequenceNumber: m.StreamChunk.SequenceNumber,
							ResultCode:     message.ResultCodeSucceeded,
							ResultString:   "OK",
						}},
						DataIDAliases:   map[uint32]*message.DataID{},
						ExtensionFields: &message.UpstreamChunkAckExtensionFields{},
					})
				case *message.UpstreamCloseRequest:
					_ = d.srv.Write(&message.UpstreamCloseResponse{
						RequestID:       m.RequestID,
						ResultCode:      message.ResultCodeSucceeded,
						ResultString:    "OK",
						ExtensionFields: &message.UpstreamCloseResponseExtensionFields{},
					})
				case *message.Disconnect:
					return
				}
			}
		}()

		ctx, cancel := context.WithTimeout(context.Background(), 20*time.Second)
		conn, err := Connect("dummy", TransportTest, WithConnNodeID("11111111-1111-1111-1111-111111111111"))
		require.NoError(t, err)
		up, err := conn.OpenUpstream(ctx, "session", WithUpstreamFlushPolicyIntervalOnly(time.Hour))
		require.NoError(t, err)

		var wg sync.WaitGroup
		stop := make(chan struct{})
		for w := 0; w < 8; w++ {
			wg.Add(1)
			go func(w int) {
				defer wg.Done()
				id := &message.DataID{Name: "n", Type: string(rune('a' + w))}
				for i := 0; ; i++ {
					select {
					case <-stop:
						return
					default:
					}
					if err := up.WriteDataPoints(ctx, id, &message.DataPoint{ElapsedTime: time.Duration(i), Payload: []byte{1}}); err != nil {
						return
					}
				}
			}(w)
		}
		time.Sleep(5 * time.Millisecond)
		cctx, ccancel := context.WithCancel(ctx)
		ccancel() // the caller's deadline has already passed: Close skips the waits and goes straight to the close request
		_ = up.Close(cctx)
		close(stop)
		wg.Wait()
		_ = conn.Close(ctx)
		cancel()
		<-brokerDone
	}
}
