package wire_test

// Demonstration for C12 (run inside /repo/wire, e.g. with go test -overlay): a broker that answers
// a request id with a response of another message type made the caller panic on an unchecked type
// assertion (`resp.(*message.Pong)` and nine more).  For the ping this happens in the keepalive
// goroutine and kills the process.  With the fix the caller gets an error.

import (
	"context"
	"testing"
	"time"

	"github.com/aptpod/iscp-go/message"
	"github.com/stretchr/testify/require"
)

func TestC12Demo_ResponseOfWrongTypeDoesNotPanic(t *testing.T) {
	cliConn, srv := connect(t, nil)
	defer cliConn.Close()
	go func() {
		for {
			msg, err := srv.Read()
			if err != nil {
				return
			}
			switch m := msg.(type) {
			case *message.Ping:
				// hostile answer to the keepalive ping: the right request id, the wrong type
				_ = srv.Write(&message.UpstreamCloseResponse{RequestID: m.RequestID})
			case *message.UpstreamMetadata:
				_ = srv.Write(&message.Pong{RequestID: m.RequestID})
			}
		}
	}()
	ctx, cancel := context.WithTimeout(context.Background(), time.Second)
	defer cancel()
	require.NotPanics(t, func() {
		_, err := cliConn.SendUpstreamMetadata(ctx, &message.UpstreamMetadata{
			Metadata: &message.BaseTime{Name: "n", BaseTime: time.Unix(0, 3).UTC()},
			ExtensionFields: &message.UpstreamMetadataExtensionFields{},
		})
		require.Error(t, err)
	})
	time.Sleep(50 * time.Millisecond) // the keepalive goroutine must survive its hostile pong too
}
