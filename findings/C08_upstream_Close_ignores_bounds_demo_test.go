package iscp_test

// Demonstration for C08 (place in iscp/; external test using iscp/helper_test.go): the drain loop of
// Upstream.Close (waitToSendAllDataPointsAndReceiveAllAck) polls its context and the stream's close
// timeout only at the top of the loop and then blocks in receivedAck.Wait(), which nothing but an
// arriving ack ever signals: with a broker that never acknowledges, Close returns neither at its
// context's deadline nor at the stream's close timeout - it blocks forever.

import (
	"context"
	"testing"
	"time"

	. "github.com/aptpod/iscp-go/iscp"
	"github.com/aptpod/iscp-go/message"
	"github.com/aptpod/iscp-go/transport"
	"github.com/google/uuid"
	"github.com/stretchr/testify/require"
)

func TestDemoC08_CloseReturnsAtItsBoundWhenBrokerNeverAcks(t *testing.T) {
	d := newDialer(transport.NegotiationParams{})
	RegisterDialer(TransportTest, func() transport.Dialer { return d })
	go func() { // a broker that opens the stream and then never acknowledges a chunk
		mockConnectRequest(t, d.srv)
		for {
			msg, err := d.srv.Read()
			if err != nil {
				return
			}
			switch m := msg.(type) {
			case *message.Ping:
				_ = d.srv.Write(&message.Pong{RequestID: m.RequestID})
			case *message.UpstreamOpenRequest:
				_ = d.srv.Write(&message.UpstreamOpenResponse{RequestID: m.RequestID, AssignedStreamID: uuid.MustParse("11111111-1111-1111-1111-111111111111"),
					AssignedStreamIDAlias: 1, ResultCode: message.ResultCodeSucceeded, ResultString: "OK", ExtensionFields: &message.UpstreamOpenResponseExtensionFields{}})
			case *message.UpstreamCloseRequest:
				_ = d.srv.Write(&message.UpstreamCloseResponse{RequestID: m.RequestID, ResultCode: message.ResultCodeSucceeded, ResultString: "OK"})
			}
		}
	}()
	ctx := context.Background()
	conn, err := Connect("dummy", TransportTest, WithConnNodeID("11111111-1111-1111-1111-111111111111"))
	require.NoError(t, err)
	defer d.Close()
	up, err := conn.OpenUpstream(ctx, "session", WithUpstreamFlushPolicyImmediately(), WithUpstreamCloseTimeout(200*time.Millisecond))
	require.NoError(t, err)
	require.NoError(t, up.WriteDataPoints(ctx, &message.DataID{Name: "n", Type: "t"}, &message.DataPoint{Payload: []byte{1}}))

	cctx, cancel := context.WithTimeout(ctx, 300*time.Millisecond)
	defer cancel()
	returned := make(chan error, 1)
	go func() { returned <- up.Close(cctx) }()
	select {
	case <-returned:
		// fine: with or without an error, Close came back once its bounds (300 ms context, 200 ms close timeout) had passed
	case <-time.After(3 * time.Second):
		t.Fatalf("Upstream.Close is still blocked 3 s after both its context deadline (300 ms) and the stream's close timeout (200 ms) have passed")
	}
}
