package iscp_test

// Demonstration for C09 (place in iscp/ together with C09_upstream_wireConn_export_shim_test.go):
// Upstream.resume assigns u.wireConn WITHOUT holding u.mu, while the chunk sender goroutines
// (sendChunkAndWaitAck, started by flush with `go`) read u.wireConn under u.mu.RLock. A sender
// that is scheduled late - after the stream's service goroutines have ended on the outage, before
// the watcher resumes the stream on the new connection - races with that write. Through the public
// API alone the window is narrow (seed-writing agents saw the race detector report it on the
// unchanged tree about once in 15 runs of TestUpstream_Resume_Unreliable under load); here the
// shim starts one sender late, everything else is the library reconnecting and resuming by itself.
//
// Run:  go test -race -count=1 -run TestDemoC09_UpstreamWireConnResumeRace ./iscp/

import (
	"context"
	"testing"
	"time"

	. "github.com/aptpod/iscp-go/iscp"
	"github.com/aptpod/iscp-go/message"
	"github.com/aptpod/iscp-go/transport"
	"github.com/google/uuid"
	"github.com/stretchr/testify/require"
)

func TestDemoC09_UpstreamWireConnResumeRace(t *testing.T) {
	dialers := []*dialer{newDialer(transport.NegotiationParams{}), newDialer(transport.NegotiationParams{})}
	registerTestTransport(t, dialers)
	sid := uuid.MustParse("11111111-1111-1111-1111-111111111111")
	broker := func(d *dialer) {
		mockConnectRequest(t, d.srv)
		for {
			msg, err := d.srv.Read()
			if err != nil {
				return
			}
			switch m := msg.(type) {
			case *message.Ping:
				_ = d.srv.Write(&message.Pong{RequestID: m.RequestID})
			case *message.UpstreamOpenRequest:
				_ = d.srv.Write(&message.UpstreamOpenResponse{RequestID: m.RequestID, AssignedStreamID: sid, AssignedStreamIDAlias: 1,
					ResultCode: message.ResultCodeSucceeded, ResultString: "OK", ExtensionFields: &message.UpstreamOpenResponseExtensionFields{}})
			case *message.UpstreamResumeRequest:
				time.Sleep(20 * time.Millisecond)
				_ = d.srv.Write(&message.UpstreamResumeResponse{RequestID: m.RequestID, AssignedStreamIDAlias: 1,
					ResultCode: message.ResultCodeSucceeded, ResultString: "OK", ExtensionFields: &message.UpstreamResumeResponseExtensionFields{}})
			case *message.UpstreamCloseRequest:
				_ = d.srv.Write(&message.UpstreamCloseResponse{RequestID: m.RequestID, ResultCode: message.ResultCodeSucceeded, ResultString: "OK"})
			case *message.Disconnect:
				return
			}
		}
	}
	go broker(dialers[0])
	done := make(chan struct{})
	go func() { defer close(done); broker(dialers[1]) }()

	ctx, cancel := context.WithTimeout(context.Background(), 30*time.Second)
	defer cancel()
	var up *Upstream
	senders := make(chan (<-chan struct{}), 64)
	resumed := make(chan struct{}, 1)
	conn, err := Connect("dummy", TransportTest, WithConnNodeID("11111111-1111-1111-1111-111111111111"),
		WithConnPingInterval(100*time.Millisecond), WithConnPingTimeout(100*time.Millisecond),
		WithConnDisconnectedEventHandler(DisconnectedEventHandlerFunc(func(*DisconnectedEvent) {
			// the outage has been noticed: senders started by the last flushes are still being scheduled
			for i := 0; i < 20; i++ {
				senders <- up.DemoLateSender(time.Duration(i) * 500 * time.Microsecond)
			}
		})))
	require.NoError(t, err)
	up, err = conn.OpenUpstream(ctx, "session", WithUpstreamCloseTimeout(50*time.Millisecond),
		WithUpstreamResumedEventHandler(UpstreamResumedEventHandlerFunc(func(*UpstreamResumedEvent) { resumed <- struct{}{} })))
	require.NoError(t, err)

	dialers[0].Close()
	select {
	case <-resumed:
	case <-time.After(10 * time.Second):
		t.Fatal("the stream did not resume within 10 s")
	}
	for len(senders) > 0 {
		<-(<-senders)
	}
	cctx, ccancel := context.WithTimeout(ctx, time.Second)
	_ = up.Close(cctx)
	ccancel()
	_ = conn.Close(ctx)
	dialers[1].Close()
	<-done
}
